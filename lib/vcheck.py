"""vcheck — shared machinery of /verif/check.

Steps of one check (DESIGN.md §2.2):
  1. proof step: make the property's .vo closure, scan the development for
     forbidden commands, list `Print Assumptions` for every property theorem;
  2. build the Rust harness against /repo's working tree;
  3. corpus + known-finding witnesses first, then generated cases;
  4. run harness (real code) and Coq (model, monitor, known classes) on the
     same cases; Coq returns one row [case, sub-check, code, class] per
     observation (coq/Check/Verdict.v);
  5. verdict, shrinking, replay file, evidence.
"""
import concurrent.futures as cf
import hashlib
import json
import os
import random
import re
import subprocess
import sys
import time

VERIF = os.path.dirname(os.path.dirname(os.path.abspath(__file__)))
COQ = os.path.join(VERIF, "coq")
BUILD = os.path.join(VERIF, "build")
# VERIF_TARGET_BASE: share the cargo target directories of another checkout (used by tools/modelmut.py)
TARGET_BASE = os.environ.get("VERIF_TARGET_BASE", BUILD)
TARGET = os.path.join(TARGET_BASE, "target")
HARNESS = os.path.join(VERIF, "harness")
GUARD = "cucumber_rs_cucumber_verif"
ALLOWED_AXIOMS = set()  # DESIGN.md §9: the development is closed under the global context

FORBIDDEN = re.compile(
    r"\b(Admitted|admit|Axiom|Axioms|Parameter|Parameters|Conjecture|Conjectures|"
    r"Abort All|Unset Guard Checking|Unset Positivity Checking|Unset Universe Checking|"
    r"bypass_check|Admit Obligations|type-in-type|impredicative-set|native_compute)\b")


def log(*a):
    print(*a, flush=True)


# ---------------------------------------------------------------- Coq terms
def cN(n):
    return str(int(n))


def cstr(s):
    return "[" + ";".join(str(ord(ch)) for ch in s) + "]"


def cbool(b):
    return "true" if b else "false"


def copt(x, f=cN):
    return "None" if x is None else "(Some %s)" % f(x)


def clist(xs, f):
    return "[" + "; ".join(f(x) for x in xs) + "]"


def cpair(a, b):
    return "(%s, %s)" % (a, b)


def ctagop(t):
    if t is None:
        raise ValueError
    if "and" in t:
        return "(TAnd %s %s)" % (ctagop(t["and"][0]), ctagop(t["and"][1]))
    if "or" in t:
        return "(TOr %s %s)" % (ctagop(t["or"][0]), ctagop(t["or"][1]))
    if "not" in t:
        return "(TNot %s)" % ctagop(t["not"])
    return "(TTag %s)" % cstr(t["tag"])


# ---------------------------------------------------------------- processes
def sh(cmd, cwd=None, env=None, timeout=None, input=None):
    e = dict(os.environ)
    if env:
        e.update(env)
    p = subprocess.run(cmd, cwd=cwd, env=e, timeout=timeout, input=input,
                       stdout=subprocess.PIPE, stderr=subprocess.STDOUT, text=True,
                       shell=isinstance(cmd, str))
    return p.returncode, p.stdout


def ensure_makefile():
    mk = os.path.join(COQ, "Makefile")
    cp = os.path.join(COQ, "_CoqProject")
    if not os.path.exists(mk) or os.path.getmtime(mk) < os.path.getmtime(cp):
        sh(["coq_makefile", "-f", "_CoqProject", "-o", "Makefile"], cwd=COQ)


def scan_forbidden():
    """Forbidden commands anywhere in the development (comments stripped)."""
    hits = []
    for root, _, files in os.walk(COQ):
        for fn in files:
            if not fn.endswith(".v"):
                continue
            path = os.path.join(root, fn)
            src = open(path, encoding="utf-8").read()
            src = strip_coq_comments(src)
            for i, line in enumerate(src.split("\n"), 1):
                m = FORBIDDEN.search(line)
                if m:
                    hits.append("%s:%d: %s" % (os.path.relpath(path, VERIF), i, m.group(0)))
    cp = open(os.path.join(COQ, "_CoqProject")).read()
    for bad in ("-type-in-type", "-impredicative-set", "-vos", "-vok"):
        if bad in cp:
            hits.append("_CoqProject: " + bad)
    return hits


def strip_coq_comments(src):
    out, depth, i, n = [], 0, 0, len(src)
    in_str = False
    while i < n:
        if not in_str and src.startswith("(*", i):
            depth += 1
            i += 2
        elif not in_str and depth and src.startswith("*)", i):
            depth -= 1
            i += 2
        else:
            ch = src[i]
            if depth == 0:
                if ch == '"':
                    in_str = not in_str
                out.append(ch)
            elif ch == "\n":
                out.append(ch)
            i += 1
    return "".join(out)


def theorems_of(prop):
    src = strip_coq_comments(open(os.path.join(COQ, "Props", prop + ".v")).read())
    return re.findall(r"^\s*Theorem\s+([A-Za-z0-9_']+)", src, re.M)


def proof_step(prop, extra_targets=()):
    """Returns dict(ok, obligations, discharged, problems[], assumptions{}, checker_cmd)."""
    ensure_makefile()
    problems = []
    if os.environ.get("VERIF_SKIP_PROOFS"):
        # model-mutation analysis (tools/modelmut.py): only the executable part (models + verdict functions) is built;
        # never used by a registered command
        rc, out = sh(["timeout", "1500", "make", "-j4"] + list(extra_targets), cwd=COQ)
        if rc != 0:
            problems.append("coq build failed: " + tail(out, 30))
        return dict(ok=not problems, obligations=0, discharged=0, problems=problems, assumptions={}, theorems=[],
                    checker_cmd="(proofs skipped: VERIF_SKIP_PROOFS)")
    targets = ["Props/%s.vo" % prop] + list(extra_targets)
    cmd = ["make", "-j16"] + targets
    rc, out = sh(["timeout", "1500"] + cmd, cwd=COQ)
    if rc != 0:
        problems.append("coq build failed: " + tail(out, 30))
    hits = scan_forbidden()
    if hits:
        problems.append("forbidden commands: " + "; ".join(hits[:10]))
    thms = theorems_of(prop)
    assumptions = {}
    discharged = 0
    if rc == 0:
        os.makedirs(os.path.join(BUILD, "run", prop), exist_ok=True)
        af = os.path.join(BUILD, "run", prop, "assumptions_%s.v" % prop)
        with open(af, "w") as f:
            f.write("From CV Require Import Props.%s.\n" % prop)
            for t in thms:
                f.write('Goal True. idtac "@@THM %s". exact I. Qed.\nPrint Assumptions %s.\n' % (t, t))
        rc2, out2 = sh(["timeout", "600", "coqc", "-noglob", "-Q", COQ, "CV", af], cwd=os.path.dirname(af))
        if rc2 != 0:
            problems.append("Print Assumptions run failed: " + tail(out2, 20))
        else:
            chunks = out2.split("@@THM ")[1:]
            for ch in chunks:
                name, _, rest = ch.partition("\n")
                rest = rest.strip()
                if rest.startswith("Closed under the global context"):
                    assumptions[name.strip()] = []
                    discharged += 1
                else:
                    axs = re.findall(r"^([A-Za-z0-9_.']+)\s*:", rest, re.M)
                    assumptions[name.strip()] = axs
                    bad = [a for a in axs if a not in ALLOWED_AXIOMS]
                    if bad:
                        problems.append("theorem %s depends on non-allowlisted axioms %s" % (name.strip(), bad))
                    else:
                        discharged += 1
            missing = [t for t in thms if t not in assumptions]
            if missing:
                problems.append("no Print Assumptions output for " + ",".join(missing))
    if not thms:
        problems.append("no theorems found in Props/%s.v" % prop)
    return dict(ok=not problems, obligations=len(thms), discharged=discharged, problems=problems,
                assumptions=assumptions, theorems=thms,
                checker_cmd="make -C coq -j16 %s && coqc Print-Assumptions file over %d theorems" % (" ".join(targets), len(thms)))


def coqchk_step(prop):
    """Thorough tier: independent re-check of the property's compiled closure."""
    rc, out = sh(["timeout", "1500", "coqchk", "-silent", "-o", "-Q", COQ, "CV", "CV.Props.%s" % prop], cwd=COQ)
    axioms_line = ""
    m = re.search(r"\* Axioms:\s*(.*?)(?:\n\s*\*|\Z)", out, re.S)
    if m:
        axioms_line = " ".join(m.group(1).split())
    return dict(ok=(rc == 0), axioms=axioms_line, out=tail(out, 15))


def tail(s, n):
    return "\n".join(s.strip().split("\n")[-n:])


def build_harness(release=False, guard=True, target=None, crate="harness", binname="vh"):
    target = target or (TARGET if crate == "harness" else os.path.join(TARGET_BASE, "target-" + crate))
    env = {"CARGO_NET_OFFLINE": "true", "CARGO_TARGET_DIR": target,
           "RUSTFLAGS": ("--cfg %s" % GUARD) if guard else ""}
    cmd = ["cargo", "build", "--offline", "--quiet"] + (["--release"] if release else [])
    t = time.time()
    rc, out = sh(["timeout", "1500"] + cmd, cwd=os.path.join(VERIF, crate), env=env)
    binp = os.path.join(target, "release" if release else "debug", binname)
    errs = [l for l in out.split("\n") if l.startswith("error")]
    return dict(ok=(rc == 0 and os.path.exists(binp)), bin=binp, out=tail(out, 40) if rc else "",
                errors=errs, wall_s=time.time() - t)


def run_harness(binp, engine, cases, shards=16, timeout=900, extra_env=None, one_per_process=False):
    """Runs the real code on every case. Returns dict id -> result (None when the worker died)."""
    if not cases:
        return {}
    if one_per_process:
        chunks = [[c] for c in cases]
    else:
        shards = max(1, min(shards, len(cases)))
        chunks = [cases[i::shards] for i in range(shards)]

    def parse(out, res):
        for line in out.split("\n"):
            k = line.find("@@R ")
            if k >= 0:
                try:
                    r = json.loads(line[k + 4:])
                    res[r["id"]] = r
                except Exception:
                    pass

    def work(chunk):
        res = {}
        todo = list(chunk)
        rc, err = 0, ""
        while todo:
            inp = "".join(json.dumps(c) + "\n" for c in todo)
            e = dict(os.environ)
            e.update(extra_env or {})
            try:
                p = subprocess.run([binp, engine], input=inp, stdout=subprocess.PIPE, stderr=subprocess.PIPE,
                                   text=True, timeout=timeout, env=e)
                out, err, rc = p.stdout, p.stderr, p.returncode
            except subprocess.TimeoutExpired as ex:
                out = ex.stdout.decode() if isinstance(ex.stdout, bytes) else (ex.stdout or "")
                err, rc = "timeout", -9
            before = len(res)
            parse(out, res)
            # exit code 3: the engine's watchdog reported a hanging case and stopped the worker;
            # carry on with the cases that have no result yet
            todo = [c for c in todo if c["id"] not in res]
            if rc != 3 or len(res) == before:
                break
            rc = 0
        return res, rc, err

    results = {}
    died = []
    with cf.ThreadPoolExecutor(max_workers=min(16, max(1, len(chunks)))) as ex:
        for res, rc, err in ex.map(work, chunks):
            results.update(res)
            if rc != 0:
                died.append((rc, tail(err, 5)))
    for c in cases:
        results.setdefault(c["id"], None)
    return results, died


ROW = re.compile(r"\[\s*(\d+)\s*;\s*(\d+)\s*;\s*(\d+)\s*;\s*(\d+)\s*\]")


def run_coq(prop, imports, case_type, terms, verdict_fn="verdict", shards=16, per_file=150, timeout=900):
    """terms: list of (id, coq-term of type case_type). Returns (rows dict id -> list of (sub, code, cls), problems)."""
    if not terms:
        return {}, []
    rundir = os.path.join(BUILD, "run", prop, "cases")
    os.makedirs(rundir, exist_ok=True)
    for fn in os.listdir(rundir):
        os.unlink(os.path.join(rundir, fn))
    files = []
    nfiles = max(min(shards, len(terms)), (len(terms) + per_file - 1) // per_file)
    for k in range(nfiles):
        chunk = terms[k::nfiles]
        if not chunk:
            continue
        fn = os.path.join(rundir, "cases_%d.v" % k)
        with open(fn, "w") as f:
            f.write("From CV Require Import %s.\nOpen Scope N_scope.\n" % " ".join(imports))
            f.write("Definition cases : list (N * %s) := [\n" % case_type)
            f.write(";\n".join("(%d, %s)" % (i, t) for i, t in chunk))
            f.write("\n].\n")
            f.write("Eval vm_compute in (flat_map (fun ic => %s (fst ic) (snd ic)) cases).\n" % verdict_fn)
        files.append(fn)

    def work(fn):
        try:
            p = subprocess.run(["coqc", "-noglob", "-Q", COQ, "CV", fn], cwd=rundir, stdout=subprocess.PIPE,
                               stderr=subprocess.STDOUT, text=True, timeout=timeout)
            return fn, p.returncode, p.stdout
        except subprocess.TimeoutExpired:
            return fn, -9, "timeout"

    rows, problems = {}, []
    with cf.ThreadPoolExecutor(max_workers=shards) as ex:
        for fn, rc, out in ex.map(work, files):
            if rc != 0:
                problems.append("%s: rc=%s %s" % (os.path.basename(fn), rc, tail(out, 12)))
                continue
            for m in ROW.finditer(out):
                i, sub, code, cls = (int(x) for x in m.groups())
                rows.setdefault(i, []).append((sub, code, cls))
    return rows, problems


# ---------------------------------------------------------------- known findings
def known_findings(prop):
    """Lines of known-findings.txt:  known: property=Cxx class=<n> name=<Kxx> witness=<path> :: text"""
    out = []
    p = os.path.join(VERIF, "known-findings.txt")
    if not os.path.exists(p):
        return out
    for line in open(p):
        line = line.strip()
        if not line.startswith("known:"):
            continue
        head, _, text = line[len("known:"):].partition("::")
        kv = dict(x.split("=", 1) for x in head.split() if "=" in x)
        if kv.get("property") == prop:
            kv["text"] = text.strip()
            kv["class"] = int(kv.get("class", "0"))
            out.append(kv)
    return out


def corpus_cases(prop):
    d = os.path.join(VERIF, "corpus", prop)
    out = []
    if os.path.isdir(d):
        for fn in sorted(os.listdir(d)):
            if fn.endswith(".json"):
                c = json.load(open(os.path.join(d, fn)))
                c["_corpus"] = fn
                out.append(c)
    return out


# ---------------------------------------------------------------- generic shrinking
def shrink_candidates(case, protect=("id", "_corpus")):
    """Structural one-step reductions of a JSON case: drop a list element, null a value,
    shorten a string, halve an integer."""
    out = []

    def rec(node, path):
        if isinstance(node, list):
            for i in range(len(node)):
                out.append((path, ("del", i)))
            for i, x in enumerate(node):
                rec(x, path + [i])
        elif isinstance(node, dict):
            for k, v in node.items():
                if k in protect:
                    continue
                rec(v, path + [k])
        elif isinstance(node, str):
            if len(node) > 0:
                out.append((path, ("str", node[:-1])))
                if len(node) > 1:
                    out.append((path, ("str", node[1:])))
        elif isinstance(node, bool):
            if node:
                out.append((path, ("val", False)))
        elif isinstance(node, int):
            if node > 0:
                out.append((path, ("val", node // 2)))
                out.append((path, ("val", node - 1)))

    rec(case, [])
    res = []
    for path, op in out:
        c = json.loads(json.dumps(case))
        node = c
        for p in path[:-1]:
            node = node[p]
        if op[0] == "del":
            tgt = node[path[-1]] if path else c
            del tgt[op[1]]
        else:
            if not path:
                continue
            node[path[-1]] = op[1]
        res.append(c)
    return res


def size_of(case):
    return len(json.dumps(case))


# ---------------------------------------------------------------- evidence
def write_evidence(prop, tier, seed, coverage, assumptions, wall_s, violations):
    os.makedirs(os.path.join(VERIF, "evidence"), exist_ok=True)
    ev = dict(property_id=prop, tier=tier, seed=int(seed), level="proof", coverage=coverage,
              assumptions=assumptions, wall_s=round(wall_s, 2), violations=int(violations))
    with open(os.path.join(VERIF, "evidence", prop + ".json"), "w") as f:
        json.dump(ev, f, indent=1, sort_keys=True)
        f.write("\n")


def case_hash(case):
    c = {k: v for k, v in case.items() if k not in ("id", "_corpus")}
    return hashlib.sha1(json.dumps(c, sort_keys=True).encode()).hexdigest()


def write_replay(prop, name, payload):
    d = os.path.join(BUILD, "replay")
    os.makedirs(d, exist_ok=True)
    path = os.path.join(d, "%s_%s.json" % (prop, name))
    with open(path, "w") as f:
        json.dump(payload, f, indent=1, sort_keys=True)
        f.write("\n")
    return path
