"""Cases and rendering for the `realclock` engine (C05d, C04d)."""
from vcheck import cN, cbool, copt, clist, cpair
import evgen

RULE = ("cases = 2-4 scenarios delivered at once (some with @retry(1..2), most of those with .after(D), failing their first 1-2 "
        "attempts) and in half of the cases a second feature that the parser holds back until the stream has returned Pending "
        "while a retry waits; D = 300 or 400 ms; concurrency 1, 2 or unlimited; instantaneous steps. The REAL runner on the REAL "
        "clock (the verif hook's clock switched to real time: the production sleeping path runs), polled by hand with a "
        "thread-parking waker; every event is stamped with the time at which its poll returned; timing observations are taken "
        "up to three times and the most favourable one is reported.")
TRUSTED = ["Coq 8.16.1 kernel; vm_compute (the monitors of Check/RealClockCheck.v; no real-time model)",
           "the real-clock switch of the verif hook in /repo (cfg cucumber_rs_cucumber_verif)",
           "wall-clock measurements taken by the harness (Instant::now around every poll); thresholds: half the delay for a "
           "single poll and for ingesting a late feature, 50 ms slack on the one-sided delay bound",
           "Rust harness /verif/harness (engine realclock), python orchestrator /verif/lib"]


def gen_one(rng):
    scs = []
    for i in range(rng.randrange(2, 5)):
        retry = rng.randrange(1, 3) if rng.random() < 0.6 else None
        scs.append(dict(id=11 + i, retry=retry, delayed=bool(retry) and rng.random() < 0.8,
                        fails=0 if retry is None else rng.choice([1, 1, 2, retry])))
    if not any(s["delayed"] and s["fails"] for s in scs):
        scs[0].update(retry=1, delayed=True, fails=1)
    late = [dict(id=21, retry=None, delayed=False, fails=0)] if rng.random() < 0.5 else []
    return dict(delay_ms=rng.choice([300, 400]), concurrency=rng.choice([None, 1, 2]), scenarios=scs, late=late)


def us(x):
    return None if x is None else int(round(x * 1000))


def term(case, res):
    if res is None or "events" not in res:
        raise ValueError("no observation")
    evs = clist(res["events"], lambda e: cpair(evgen.cev(e[0]), cN(us(e[1]))))
    delayed = [s["id"] for s in case["scenarios"] if s["delayed"]]
    return "(mk_rccase %s %s %s %s %s %s %s)" % (
        cN(case["delay_ms"] * 1000), clist(delayed, cN), evs, cN(us(res["max_poll_ms"])), copt(us(res["late_at_ms"])),
        copt(us(res["parsing_finished_ms"])), cbool(bool(res["terminated"])))


def panic_result(case):
    return dict(events=[], max_poll_ms=0.0, late_at_ms=None, parsing_finished_ms=None, terminated=False)


def nontrivial(case, res):
    return True


def describe(case, res):
    return ["D=%d" % case["delay_ms"], "K=%s" % case["concurrency"], "late=%s" % bool(case["late"]),
            "delayed_retries=%d" % sum(1 for s in case["scenarios"] if s["delayed"] and s["fails"])]
