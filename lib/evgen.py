"""Event-stream generators shared by the writer-side engines (C01, C11, C12, C13, C14).

Event JSON = harness/src/events.rs vocabulary.  A stream is a list of
{"meta": n, "ev": [...]}; metas are unique within a stream (1..n).
"""
from vcheck import cN, cbool, copt, clist, cpair
import gens


# ------------------------------------------------------------------ Coq renderers
def cerrk(k):
    if k == "NotFound":
        return "ENotFound"
    if k == "Ambiguous":
        return "EAmbiguous"
    return "(EPanic %s)" % cN(k[1])


def cstepev(e):
    if isinstance(e, str):
        return {"Started": "StStarted", "Passed": "StPassed", "Skipped": "StSkipped"}[e]
    return "(StFailed %s)" % cerrk(e[1])


def chookev(h):
    if isinstance(h, str):
        return {"Started": "HStarted", "Passed": "HPassed"}[h]
    return "(HFailed %s)" % cN(h[1])


def cscev(s):
    k = s[0]
    if k == "Started":
        return "ScStarted"
    if k == "Finished":
        return "ScFinished"
    if k == "Log":
        return "(ScLog %s)" % cN(s[1])
    if k == "Hook":
        return "(ScHook %s %s)" % (cbool(s[1]), chookev(s[2]))
    if k == "Bg":
        return "(ScBg %s %s)" % (cN(s[1]), cstepev(s[2]))
    return "(ScStep %s %s)" % (cN(s[1]), cstepev(s[2]))


def cretr(r):
    return "None" if r is None else "(Some (%s, %s))" % (cN(r[0]), cN(r[1]))


def cev(e):
    k = e[0]
    if k == "Started":
        return "EvStarted"
    if k == "Finished":
        return "EvFinished"
    if k == "ParsingFinished":
        return "(EvParsingFinished %s)" % " ".join(cN(x) for x in e[1:6])
    if k == "ParseErr":
        return "(EvParseErr %s)" % cN(e[1])
    if k in ("FeatS", "FeatF"):
        return "(Ev%s %s)" % (k, cN(e[1]))
    if k in ("RuleS", "RuleF"):
        return "(Ev%s %s %s)" % (k, cN(e[1]), cN(e[2]))
    return "(EvScen %s %s %s %s %s)" % (cN(e[1]), copt(e[2]), cN(e[3]), cretr(e[4]), cscev(e[5]))


def cmev(m):
    return "(%s, %s)" % (cN(m["meta"]), cev(m["ev"]))


def cmevs(ms):
    return clist(ms, cmev)


# ------------------------------------------------------------------ attempts
FAILKINDS = ["NotFound", "Ambiguous", ["Panic", 1], ["Panic", 2]]


def gen_attempt(rng, f, r, s, retr, fail_bias, hooks, logs=True, notfound=False):
    """Events of one attempt of scenario `s` (feature f, rule r or None), canonical order
    (src/runner/basic.rs Executor::run_scenario). Returns (events, failed)."""
    fid, rid, sid = f["id"], (r["id"] if r else None), s["id"]
    out = []

    def emit(sc):
        out.append(["Scen", fid, rid, sid, retr, sc])

    emit(["Started"])
    failed = False
    before, after = hooks
    deferred = None
    if before:
        emit(["Hook", True, "Started"])
        if rng.random() < fail_bias * 0.4:
            emit(["Hook", True, ["Failed", rng.randrange(1, 4)]])
            failed = True
        else:
            emit(["Hook", True, "Passed"])
    if not failed:
        seq = [("Bg", st) for st in f["bg"]] + [("Bg", st) for st in (r["bg"] if r else [])] + \
              [("Step", st) for st in s["steps"]]
        for kind, st in seq:
            emit([kind, st["id"], "Started"])
            if logs and rng.random() < 0.1:
                emit(["Log", rng.randrange(1, 5)])
            x = rng.random()
            if x < fail_bias * 0.35:
                deferred = [kind, st["id"], ["Failed", rng.choice(FAILKINDS if notfound else FAILKINDS[1:])]]
                failed = True
                break
            if x < fail_bias * 0.6:
                emit([kind, st["id"], "Skipped"])
                break
            emit([kind, st["id"], "Passed"])
    if deferred is not None:
        emit(deferred)
    if after:
        emit(["Hook", False, "Started"])
        if rng.random() < fail_bias * 0.3:
            emit(["Hook", False, ["Failed", rng.randrange(1, 4)]])
            failed = True
        else:
            emit(["Hook", False, "Passed"])
    emit(["Finished"])
    # NotFound failures are "skipped-as-failed": the runner does not retry them? (it does: is_failed covers
    # every Failed step). Keep simple: any failure counts.
    return out, failed


def gen_scenario_attempts(rng, f, r, s, fail_bias, hooks):
    """List of attempts (each a list of events) of one scenario."""
    with_retries = rng.random() < 0.5
    if not with_retries:
        ev, _ = gen_attempt(rng, f, r, s, None, fail_bias, hooks)
        return [ev]
    left = rng.randrange(0, 4)
    cur = 0
    atts = []
    while True:
        ev, failed = gen_attempt(rng, f, r, s, [cur, left], fail_bias, hooks)
        atts.append(ev)
        if failed and left > 0:
            cur += 1
            left -= 1
        else:
            break
    return atts


# ------------------------------------------------------------------ whole streams
def contract_stream(rng, feats, mode=None, fail_bias=None, parse_errs=None, drop_tail=False):
    """A stream that satisfies the Runner ordering contract (src/runner/mod.rs:27-56).

    mode: "seq" (normalized: one feature/rule/attempt open at a time),
          "runner" (what runner::Basic produces: brackets opened lazily, a few attempts in flight),
          "wild" (any linearisation the contract allows).
    """
    mode = mode or rng.choice(["seq", "runner", "runner", "wild", "wild"])
    fail_bias = rng.choice([0.0, 0.3, 0.6, 1.0]) if fail_bias is None else fail_bias
    hooks = (rng.random() < 0.4, rng.random() < 0.4)
    # build per-scenario chains
    chains = []       # dict(f, r, atts=[[ev...]...])
    for f in feats:
        for r, s in gens.all_scenarios(f):
            chains.append(dict(f=f["id"], r=r["id"] if r else None,
                               atts=gen_scenario_attempts(rng, f, r, s, fail_bias, hooks)))
    out = []
    nerr = rng.randrange(0, 3) if parse_errs is None else parse_errs
    # ParsingFinished counts
    nf = len(feats)
    nr = sum(len(f["rules"]) for f in feats)
    ns = len(chains)
    nst = 0
    for f in feats:
        for r, s in gens.all_scenarios(f):
            nst += len(f["bg"]) + (len(r["bg"]) if r else 0) + len(s["steps"])
    pf = ["ParsingFinished", nf, nr, ns, nst, nerr]
    passthrough = [["ParseErr", 900 + i] for i in range(nerr)] + [pf]
    early = rng.random() < 0.5          # eager parser: everything before Started
    if early:
        out += passthrough
        passthrough = []
    out.append(["Started"])

    feat_open, feat_closed, rule_open, rule_closed = set(), set(), set(), set()
    remaining_f = {}
    remaining_r = {}
    for c in chains:
        remaining_f[c["f"]] = remaining_f.get(c["f"], 0) + 1
        if c["r"] is not None:
            remaining_r[(c["f"], c["r"])] = remaining_r.get((c["f"], c["r"]), 0) + 1
    pending = list(range(len(chains)))
    if mode == "wild":
        rng.shuffle(pending)
    elif mode == "runner" and rng.random() < 0.3:
        rng.shuffle(pending)
    active = []        # [chain idx, attempt idx, event idx]
    width = 1 if mode == "seq" else rng.choice([1, 2, 3, 4])
    to_close = []      # brackets whose closing event is still owed (wild mode delays them)

    def open_brackets(c):
        if c["f"] not in feat_open:
            feat_open.add(c["f"])
            out.append(["FeatS", c["f"]])
        if c["r"] is not None and (c["f"], c["r"]) not in rule_open:
            rule_open.add((c["f"], c["r"]))
            out.append(["RuleS", c["f"], c["r"]])

    def close_due(force=False):
        # emit owed closings; a feature only after all of its owed rules
        nonlocal to_close
        progress = True
        while progress:
            progress = False
            for b in list(to_close):
                if b[0] == "F" and any(k[0] == "R" and k[1] == b[1] for k in to_close):
                    continue
                if not force and mode == "wild" and rng.random() < 0.5:
                    continue
                to_close.remove(b)
                out.append(["RuleF", b[1], b[2]] if b[0] == "R" else ["FeatF", b[1]])
                progress = True
            if not force:
                break

    def finish_chain(c):
        if c["r"] is not None:
            remaining_r[(c["f"], c["r"])] -= 1
            if remaining_r[(c["f"], c["r"])] == 0:
                to_close.append(("R", c["f"], c["r"]))
        remaining_f[c["f"]] -= 1
        if remaining_f[c["f"]] == 0:
            to_close.append(("F", c["f"], None))
        close_due()

    while pending or active:
        if passthrough and rng.random() < 0.2:
            out.append(passthrough.pop(0))
        while pending and len(active) < width and (not active or rng.random() < 0.7):
            i = pending.pop(0)
            if mode != "wild" or rng.random() < 0.7:
                open_brackets(chains[i])
            active.append([i, 0, 0])
        k = rng.randrange(len(active))
        if mode == "seq":
            k = 0
        a = active[k]
        c = chains[a[0]]
        open_brackets(c)
        burst = 1 if mode == "wild" else rng.randrange(1, 4)
        for _ in range(burst):
            evs = c["atts"][a[1]]
            out.append(evs[a[2]])
            a[2] += 1
            if a[2] == len(evs):
                a[1] += 1
                a[2] = 0
                if a[1] == len(c["atts"]):
                    active.pop(k)
                    finish_chain(c)
                break
    close_due(force=True)
    out += passthrough
    if not (drop_tail and rng.random() < 0.3):
        out.append(["Finished"])
    return [dict(meta=i + 1, ev=e) for i, e in enumerate(out)]


def fail_on_skipped(rng, events, p=0.7):
    """What writer::FailOnSkipped (with a per-scenario predicate) makes of a stream: in the chosen scenarios every
    Skipped step becomes Failed(NotFound). Such an attempt is never retried by the runner, whatever retries it has left
    (src/writer/fail_on_skipped.rs:88-113; summarize.rs / libtest.rs treat NotFound as final)."""
    chosen = {}
    out = []
    for d in events:
        e = d["ev"]
        if e[0] == "Scen" and e[5][0] in ("Bg", "Step") and e[5][2] == "Skipped":
            if chosen.setdefault(e[3], rng.random() < p):
                e = e[:5] + [[e[5][0], e[5][1], ["Failed", "NotFound"]]]
        out.append(dict(meta=d["meta"], ev=e))
    return out


def arbitrary_stream(rng, feats, n=None):
    """Any event list (not contract-abiding): used for combinators, which must be transparent on anything."""
    pool = []
    for f in feats:
        pool += [["FeatS", f["id"]], ["FeatF", f["id"]]]
        for r in f["rules"]:
            pool += [["RuleS", f["id"], r["id"]], ["RuleF", f["id"], r["id"]]]
        for r, s in gens.all_scenarios(f):
            for retr in (None, [0, 1], [1, 0]):
                evs, _ = gen_attempt(rng, f, r, s, retr, rng.choice([0.3, 1.0]), (True, True), notfound=True)
                pool += evs
    pool += [["Started"], ["Finished"], ["ParseErr", 901], ["ParsingFinished", 1, 2, 3, 4, 5]]
    n = rng.randrange(1, 25) if n is None else n
    out = [rng.choice(pool) for _ in range(n)]
    if rng.random() < 0.6:
        out.insert(rng.randrange(len(out) + 1), ["Finished"])
    return [dict(meta=i + 1, ev=e) for i, e in enumerate(out)]


def small_features(rng, nmax=2, **kw):
    ids = gens.Ids(rng.randrange(1, 9) * 1000)
    kw.setdefault("max_scen", 2)
    kw.setdefault("max_rules", 1)
    return [gens.gen_feature(rng, ids, **kw) for _ in range(rng.randrange(1, nmax + 1))]


def is_scen(e, kinds=None):
    return e[0] == "Scen" and (kinds is None or e[5][0] in kinds)
