"""Generic driver of one property check; see vcheck.py for the steps."""
import json
import os
import random
import sys
import time

from vcheck import *  # noqa: F401,F403
import vcheck as V


class Outcome:
    def __init__(self):
        self.rows = {}       # id -> [(sub, code, cls)]
        self.results = {}    # id -> harness result
        self.cases = {}      # id -> case
        self.problems = []   # infrastructure-level correspondence problems (strings)
        self.panicked = set()


def evaluate(P, binp, cases, tag="main"):
    """Runs harness + Coq over `cases` (ids must be unique ints)."""
    o = Outcome()
    o.cases = {c["id"]: c for c in cases}
    results, died = V.run_harness(binp, P.engine, cases, timeout=getattr(P, "harness_timeout", 900),
                                  shards=getattr(P, "harness_shards", 16),
                                  extra_env=getattr(P, "harness_env", None),
                                  one_per_process=getattr(P, "harness_one_per_process", False))
    o.results = results
    for rc, err in died:
        o.problems.append("harness worker exited rc=%s: %s" % (rc, err))
    terms = []
    for c in cases:
        r = results.get(c["id"])
        if r is None:
            o.rows[c["id"]] = [(0, 3, 0)]
            o.problems.append("no harness result for case %s" % c["id"])
            continue
        if "harness_panic" in r:
            # the code under test panicked on this input. Engines whose inputs have a validity
            # condition decided in Coq supply `panic_result` (an empty observation): Coq then says
            # "invalid input" (4) or lets the monitor fail (1). Everywhere else a panic on a
            # generated input is a violation with that input as the replay.
            if hasattr(P, "panic_result"):
                r = dict(P.panic_result(c), harness_panic=r["harness_panic"], id=c["id"])
                o.results[c["id"]] = r
                o.panicked.add(c["id"])
            else:
                o.rows[c["id"]] = [(0, 1, 0)]
                continue
        try:
            t = P.term(c, r)
        except Exception as ex:  # malformed (e.g. over-shrunk) case or unexpected result shape
            o.results[c["id"]] = dict(r, _render_error=repr(ex))
            if tag == "main":
                # an observation of a GENERATED case that cannot be rendered is an output outside the modelled
                # vocabulary (or a defect of the machinery): the correspondence fails ON THIS CASE — never silently
                # "invalid", and reported with the case as the replay
                o.rows[c["id"]] = [(0, 3, 0)]
            else:
                o.rows[c["id"]] = [(0, 4, 0)]     # an over-shrunk candidate
            continue
        terms.append((c["id"], t))
    rows, problems = V.run_coq(P.id, P.coq_imports, P.case_type, terms,
                               per_file=getattr(P, "coq_per_file", 150))
    o.problems += problems
    for i, t in terms:
        o.rows[i] = rows.get(i, [(0, 4, 0)] if problems else [(0, 3, 0)])
        if i in o.panicked and all(code == 0 for _, code, _ in o.rows[i]):
            o.rows[i] = [(0, 1, 0)]     # a panic can never count as agreement
    return o


def worst(rows, listed_classes):
    """Returns (kind, sub, cls): kind in ok|known|corr|viol|invalid."""
    kind, sub, cls = "ok", 0, 0
    rank = {"ok": 0, "known": 1, "invalid": 1, "corr": 2, "viol": 3}
    for s, code, c in rows:
        k = "ok"
        if code == 1:
            k = "viol"
        elif code == 2:
            k = "known" if c in listed_classes else "viol"
        elif code == 3:
            k = "corr"
        elif code == 4:
            k = "invalid"
        if rank[k] > rank[kind]:
            kind, sub, cls = k, s, c
    return kind, sub, cls


def shrink(P, binp, case, want_kind, want_sub, listed, rounds=12, cap=160, deadline=None, orig_panicked=False):
    best = case
    for _ in range(rounds):
        if deadline and time.time() > deadline:
            break
        cands = V.shrink_candidates(best)
        if hasattr(P, "shrink_candidates"):
            cands = P.shrink_candidates(best) + cands
        cands = [c for c in cands if V.size_of(c) < V.size_of(best)]
        cands.sort(key=V.size_of)
        cands = cands[:cap]
        if not cands:
            break
        for i, c in enumerate(cands):
            c["id"] = i
        o = evaluate(P, binp, cands, tag="shrink")
        ok = []
        for c in cands:
            k, s, _ = worst(o.rows.get(c["id"], []), listed)
            r = o.results.get(c["id"])
            # a candidate on which the harness panics is only a smaller instance of a case that panicked itself
            if isinstance(r, dict) and "harness_panic" in r and not orig_panicked:
                continue
            if k == want_kind and s == want_sub:
                ok.append(c)
        if not ok:
            break
        best = min(ok, key=V.size_of)
    return best


def main(P, argv):
    import argparse
    ap = argparse.ArgumentParser()
    ap.add_argument("--tier", default=os.environ.get("VERIF_TIER", "quick"))
    ap.add_argument("--replay")
    ap.add_argument("--seed", type=int, default=int(os.environ.get("VERIF_SEED", "0") or 0))
    a = ap.parse_args(argv)
    tier = "thorough" if a.tier == "thorough" else "quick"
    seed = a.seed
    t0 = time.time()
    prop = P.id
    exit_code = 0
    violations = 0
    notes = []

    # 1. proof step
    import importlib
    also = [importlib.import_module("props." + q) for q in getattr(P, "also", [])]
    targets = [m.replace('.', '/') + '.vo' for Q in [P] + also for m in Q.coq_imports]
    proof = V.proof_step(prop, extra_targets=sorted(set(targets)))
    log("[%s] proof step: %d/%d theorems discharged%s" % (
        prop, proof["discharged"], proof["obligations"], "" if proof["ok"] else " PROBLEMS: " + "; ".join(proof["problems"])))
    chk = None
    if tier == "thorough" and proof["ok"] and not a.replay:
        chk = V.coqchk_step(prop)
        log("[%s] coqchk: ok=%s axioms=%s" % (prop, chk["ok"], chk["axioms"]))
        if not chk["ok"]:
            proof["ok"] = False
            proof["problems"].append("coqchk failed: " + chk["out"])

    # 2. harness
    hb = V.build_harness(crate=getattr(P, "harness_crate", "harness"), binname=getattr(P, "harness_binname", "vh"))
    log("[%s] harness build: ok=%s (%.1fs)" % (prop, hb["ok"], hb["wall_s"]))
    # further engines may live in another harness crate
    bins = {getattr(P, "harness_crate", "harness"): hb.get("bin")}
    for Q in also:
        cr = getattr(Q, "harness_crate", "harness")
        if cr not in bins and hb["ok"]:
            hq = V.build_harness(crate=cr, binname=getattr(Q, "harness_binname", "vh"))
            log("[%s] harness build (%s): ok=%s (%.1fs)" % (prop, cr, hq["ok"], hq["wall_s"]))
            bins[cr] = hq.get("bin")
            if not hq["ok"]:
                hb = hq

    def bin_of(Q):
        return bins[getattr(Q, "harness_crate", "harness")]

    known = V.known_findings(prop)
    listed = {k["class"] for k in known}

    def listed_of(Q):
        # a further engine that re-uses the check of ANOTHER property (`known_of`) inherits that property's recorded
        # classes: they are findings of that property, reported there; here they only must fail in the recorded way
        if Q is P:
            return listed
        other = getattr(Q, "known_of", None)
        return {k["class"] for k in V.known_findings(other)} if other else set()

    coverage = dict(obligations=proof["obligations"], discharged=proof["discharged"],
                    checker_cmd=proof["checker_cmd"], trusted_base=P.trusted_base,
                    theorems=proof["theorems"], print_assumptions=proof["assumptions"],
                    evaluations=0, distinct_nontrivial=0, rule=P.rule, samples=[])
    if chk:
        coverage["coqchk"] = dict(ok=chk["ok"], axioms=chk["axioms"])

    if not hb["ok"]:
        path = V.write_replay(prop, "harness_build", dict(
            property=prop, kind="correspondence", engine=P.engine,
            what="the correspondence harness no longer builds against /repo's working tree",
            cargo_output=hb["out"]))
        log("VIOLATION property=%s replay=%s no-failing-input-found" % (prop, path))
        coverage["explanation"] = "harness build failed"
        V.write_evidence(prop, tier, seed, coverage, P.assumptions, time.time() - t0, 1)
        return 1

    # 3. cases
    rng = random.Random(seed * 1000003 + 17)
    cases = []
    if a.replay:
        rp = json.load(open(a.replay))
        eng = rp.get("engine") or rp.get("engine_of_case")
        if "case" in rp and rp["case"] is not None and eng and eng != P.engine:
            # the failing input belongs to one of the further engines of this property
            Q = next((q for q in also if q.engine == eng), None)
            if Q is not None:
                qc = dict(rp["case"], id=0)
                qo = evaluate(Q, bin_of(Q), [qc])
                k, s_, cls = worst(qo.rows.get(0, []), set())
                log("[%s] replay on engine %s: %s rows=%s" % (prop, eng, k, qo.rows.get(0)))
                if k in ("viol", "corr"):
                    log("VIOLATION property=%s replay=%s" % (prop, a.replay))
                    return 1
                return 0
        if "case" in rp and rp["case"] is not None:
            cases.append(rp["case"])
        else:
            log("[%s] replay file names no input (%s); re-running the full check" % (prop, rp.get("kind")))
    witness_ids = {}
    if not a.replay or not cases:
        for k in known:
            wp = os.path.join(V.VERIF, k["witness"])
            c = json.load(open(wp))
            c["_witness"] = k["name"]
            cases.append(c)
        cases += V.corpus_cases(prop)
        cases += P.gen(rng, tier)
    for i, c in enumerate(cases):
        c["id"] = i
        if "_witness" in c:
            witness_ids[i] = c["_witness"]

    # 4. explore (the property's own engine, then any further engines it also uses)
    o = evaluate(P, bin_of(P), cases)
    parts = [(P, cases, o)]
    if not a.replay:
        for Q in also:
            qcases = Q.gen(rng, tier)
            for i, c in enumerate(qcases):
                c["id"] = i
            parts.append((Q, qcases, evaluate(Q, bin_of(Q), qcases)))
    kinds = {}
    viol, corr, known_seen = [], [], {}
    for Q, qcases, qo in parts:
        for c in qcases:
            k, s, cls = worst(qo.rows.get(c["id"], []), listed_of(Q))
            kinds[k] = kinds.get(k, 0) + 1
            if k == "viol":
                viol.append((c, s, cls, Q))
            elif k == "corr":
                corr.append((c, s, cls, Q))
            elif k == "known":
                known_seen.setdefault(cls, []).append(c)
        if Q is not P:
            o.problems += qo.problems
    # informational rows (sub-check 90): on how many of the judged cases do the hypotheses of the property's
    # headline theorem hold (evaluated in Coq)?
    applies = [c for Q, qcases, qo in parts for cid in [x["id"] for x in qcases]
               for (s_, code_, c) in qo.rows.get(cid, []) if s_ == 90]
    if applies:
        coverage["theorem_hypotheses_hold"] = dict(cases=sum(1 for c in applies if c == 1), of=len(applies))

    # evidence numbers
    hashes = set()
    dist = {}
    for Q, qcases, qo in parts:
        for c in qcases:
            r = qo.results.get(c["id"])
            if r is not None and Q.nontrivial(c, r):
                hashes.add(V.case_hash(c))
            for key in Q.describe(c, r):
                key = key if Q is P else "%s:%s" % (Q.engine, key)
                dist[key] = dist.get(key, 0) + 1
    coverage["evaluations"] = sum(len(qc) for _, qc, _ in parts)
    if len(parts) > 1:
        coverage["rule"] = P.rule + " ALSO (engine %s): " % ", ".join(Q.engine for Q in also) + " ".join(Q.rule for Q in also)
        coverage["trusted_base"] = P.trusted_base + [t for Q in also for t in Q.trusted_base if t not in P.trusted_base]
    coverage["distinct_nontrivial"] = len(hashes)
    coverage["input_distribution"] = dist
    coverage["verdict_kinds"] = kinds
    for c in cases[:3] + cases[-2:]:
        coverage["samples"].append(dict(case={k: v for k, v in c.items() if not k.startswith("_")},
                                        observed=o.results.get(c["id"]), rows=o.rows.get(c["id"])))

    deadline = time.time() + (600 if tier == "thorough" else 120)

    def report_violation(c, s, cls, Q=P):
        r0 = o.results.get(c["id"]) if Q is P else None
        small = shrink(Q, bin_of(Q), c, "viol", s, listed_of(Q), deadline=deadline,
                       orig_panicked=(not isinstance(r0, dict)) or "harness_panic" in r0)
        small["id"] = 0
        o2 = evaluate(Q, bin_of(Q), [small])
        path = V.write_replay(prop, "violation", dict(
            property=prop, kind="failing-input", engine=Q.engine, sub_check=Q.sub_names.get(s, s),
            case=small, observed=o2.results.get(0), rows=o2.rows.get(0), original_case=c,
            how="./check %s --replay <this file>" % prop,
            meaning="the real code's output on `case` violates the property monitor (Coq: %s)" % Q.monitor_name))
        log("VIOLATION property=%s replay=%s" % (prop, path))

    if viol:
        violations = len(viol)
        viol.sort(key=lambda x: V.size_of(x[0]))
        report_violation(*viol[0])
        exit_code = 1
    elif (not proof["ok"]) or corr or o.problems:
        # 5c: proof or correspondence broken; directed search for a concrete failing input
        found = None
        extra_n = 0
        if corr:
            seeds = [c for c, _, _, Q in corr[:5] if Q is P]
            neigh = []
            for c in seeds:
                neigh += V.shrink_candidates(c)[:200]
            more = []
            for k in range(10):
                if time.time() > deadline:
                    break
                more += P.gen(random.Random(seed * 7919 + k + 1), tier)
            pool = neigh + more
            for i, c in enumerate(pool):
                c["id"] = i
            extra_n = len(pool)
            o3 = evaluate(P, bin_of(P), pool, tag="search")
            for c in pool:
                k, s, cls = worst(o3.rows.get(c["id"], []), listed)
                if k == "viol":
                    found = (c, s, cls)
                    break
        coverage["directed_search_cases"] = extra_n
        violations = 1
        exit_code = 1
        if found:
            report_violation(*found[:3])
        else:
            first = corr[0][0] if corr else None
            path = V.write_replay(prop, "broken", dict(
                property=prop, kind="proof" if not proof["ok"] else "correspondence", engine=P.engine,
                proof_problems=proof["problems"], infrastructure_problems=o.problems[:10],
                what=("theorem(s) of Props/%s.v no longer check" % prop) if not proof["ok"] else
                     ("model %s and implementation differ on `case` (sub-check %s) while the property monitor accepts the "
                      "implementation's output" % (corr[0][3].model_name if corr else P.model_name,
                                                   corr[0][3].sub_names.get(corr[0][1], corr[0][1]) if corr else "?")),
                case=first, observed=None, rows=None, engine_of_case=(corr[0][3].engine if corr else None),
                differing_cases=len(corr), searched=extra_n))
            log("VIOLATION property=%s replay=%s no-failing-input-found" % (prop, path))

    # known findings: one line per LISTED finding whose witness still fails in the recorded way
    for k in known:
        wid = [i for i, n in witness_ids.items() if n == k["name"]]
        still = any(worst(o.rows.get(i, []), listed)[0] == "known" for i in wid)
        if still or k["class"] in known_seen:
            log("KNOWN-FINDING: property=%s %s %s (witness %s%s; %d generated cases in this class)" % (
                prop, k["name"], k["text"], k["witness"], "" if still else " no longer fails",
                len(known_seen.get(k["class"], []))))
        elif wid:
            notes.append("witness of %s no longer fails" % k["name"])
    coverage["known_findings_seen"] = {str(k): len(v) for k, v in known_seen.items()}
    coverage["notes"] = notes
    V.write_evidence(prop, tier, seed, coverage, P.assumptions, time.time() - t0, violations)
    log("[%s] %s tier: %d cases, kinds=%s, %.1fs, exit %d" % (prop, tier, len(cases), kinds, time.time() - t0, exit_code))
    return exit_code
