"""Cases for the `reporters` engine (C14)."""
import gens
import evgen

FLAV = ["plain", "a<b>&\"c'", "ünï ✓", "x  y", "q\\n", "{json}", "[x]", "it's"]
FLAV_RARE = ["x]]>y"]


def uniq_features(rng, nmax=2):
    global FLAV
    ids = gens.Ids(rng.randrange(1, 9) * 1000)
    flav = FLAV + (FLAV_RARE if rng.random() < 0.05 else [])
    feats = []
    for _ in range(rng.randrange(1, nmax + 1)):
        f = gens.gen_feature(rng, ids, max_scen=2, max_rules=1, max_bg=1, tags=["x", "y"])
        f["name"] = "F%d %s" % (f["id"], rng.choice(flav))
        f["path"] = rng.random() < 0.85
        for st in f["bg"]:
            st["value"] = "st%d %s" % (st["id"], rng.choice(flav))
        for r in f["rules"]:
            # 12%: a `Rule:` without a name (valid Gherkin); rules are attributed by the lines of their scenarios anyway
            r["name"] = "" if rng.random() < 0.12 else "R%d %s" % (r["id"], rng.choice(flav))
            for st in r["bg"]:
                st["value"] = "st%d %s" % (st["id"], rng.choice(flav))
        for r, s in gens.all_scenarios(f):
            s["name"] = "S%d %s" % (s["id"], rng.choice(flav))
            for st in s["steps"]:
                st["value"] = "st%d %s" % (st["id"], rng.choice(flav))
        feats.append(f)
    return feats


def gen_one(rng, writer=None):
    feats = uniq_features(rng)
    events = evgen.contract_stream(rng, feats, fail_bias=rng.choice([0.0, 0.4, 0.8]))
    if rng.random() < 0.3:          # the writer sits under FailOnSkipped
        events = evgen.fail_on_skipped(rng, events)
    return dict(features=feats, events=events, writer=writer or rng.choice(["libtest", "json", "junit", "basic"]),
                verbose=rng.choice([0, 0, 1]), show_output=False,
                # half of the cases: a sink that accepts only a few bytes per write() call (short writes are allowed by io::Write)
                short_writes=rng.choice([None, None, None, 1, 3, 7, 64]))
