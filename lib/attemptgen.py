"""Cases for the `attempt` engine (C02, C05, C09, C10): one scripted scenario through the real runner."""
from vcheck import cN, cbool, copt, clist, cpair
import evgen


def gen_steps(rng, ids, n):
    out = []
    for _ in range(n):
        x = rng.random()
        out.append(dict(id=ids.next(), m="match" if x < 0.7 else "none" if x < 0.85 else "amb"))
    return out


class _Ids:
    def __init__(self):
        self.n = 9

    def next(self):
        self.n += 1
        return self.n


def gen_attempt_script(rng, case, bias):
    pan = {}
    for key in ("fbg", "rbg", "steps"):
        for s in case[key] or []:
            if s["m"] == "match" and rng.random() < bias * 0.5:
                pan[str(s["id"])] = rng.randrange(1, 900)
    x = rng.random()
    world = "ok" if x > bias * 0.25 else (["err", rng.randrange(1, 9)] if rng.random() < 0.5 else ["panic", rng.randrange(1, 900)])
    return dict(world=world,
                before=rng.randrange(1, 900) if rng.random() < bias * 0.3 else None,
                after=rng.randrange(1, 900) if rng.random() < bias * 0.3 else None,
                panics=pan)


def gen_one(rng):
    ids = _Ids()
    case = dict(fbg=gen_steps(rng, ids, rng.choice([0, 0, 1, 2])),
                rbg=None if rng.random() < 0.5 else gen_steps(rng, ids, rng.choice([0, 1, 2])),
                steps=gen_steps(rng, ids, rng.choice([0, 1, 2, 3, 3])),
                before=rng.random() < 0.5, after=rng.random() < 0.5,
                retry=None if rng.random() < 0.4 else rng.randrange(0, 4),
                concurrency=rng.choice([None, 1, 2]))
    n = 1 + (case["retry"] or 0)
    bias = rng.choice([0.0, 0.5, 1.0, 1.0])
    case["attempts"] = [gen_attempt_script(rng, case, bias if j < n - 1 or rng.random() < 0.5 else 0.2) for j in range(n)]
    # builder chain order: `.after()` before `.before()` in 30%; a classifier installed first / last in 20% each
    case["chain"] = 1 if rng.random() < 0.3 else 0
    case["which"] = rng.choice([0, 0, 0, 1, 2])
    # 20 %: user code panics on a helper thread and the payload is re-raised on the runner's thread
    case["helper_thread"] = rng.random() < 0.2
    return case


def c_outcome(s, script):
    if s["m"] == "none":
        return "ONoMatch"
    if s["m"] == "amb":
        return "OAmbiguous"
    p = script["panics"].get(str(s["id"]))
    return "(OMatch %s)" % copt(p)


def c_steps(steps, script):
    return clist(steps or [], lambda s: cpair(cN(s["id"]), c_outcome(s, script)))


def c_world(w):
    if w == "ok":
        return "WOk"
    return "(%s %s)" % ("WErr" if w[0] == "err" else "WPanic", cN(w[1]))


def c_input(case, script):
    rt = "None" if case["retry"] is None else "(Some (0, %s))" % cN(case["retry"])
    before = "(Some %s)" % copt(script["before"]) if case["before"] else "None"
    after = "(Some %s)" % copt(script["after"]) if case["after"] else "None"
    return "(mk_attempt_in %s %s %s %s %s %s %s)" % (
        before, after, c_world(script["world"]), c_steps(case["fbg"], script), c_steps(case["rbg"], script),
        c_steps(case["steps"], script), rt)


def pid(p):
    return cN(p) if isinstance(p, int) else "999999"


def c_errk(k):
    if k == "NotFound":
        return "ENotFound"
    if k == "Ambiguous":
        return "EAmbiguous"
    return "(EPanic %s)" % pid(k[1])


def c_reason(r):
    if r[0] == "BeforeHookFailed":
        return "(RBeforeHookFailed %s)" % pid(r[1])
    if r[0] == "StepFailed":
        return "(RStepFailed %s)" % c_errk(r[1])
    return {"StepPassed": "RStepPassed", "StepSkipped": "RStepSkipped"}[r[0]]


def c_call(c):
    cb = c["cb"]
    wl = lambda l: clist(l, cN)
    if cb == "new":
        return "(CWorldNew, None)"
    if cb == "before":
        return "(CBefore %s, Some %s)" % (wl(c["log"]), cN(c["wid"]))
    if cb == "step":
        return "(CStep %s %s, Some %s)" % (cN(c["st"]), wl(c["log"]), cN(c["wid"]))
    return "(CAfter %s %s, %s)" % (c_reason(c["reason"]), copt(c["log"], wl), copt(c["wid"]))


def sanitize_ev(e):
    """payload strings that are not of the scripted form become 999999 (mismatch)"""
    def fix(x):
        if isinstance(x, list):
            if len(x) == 2 and x[0] in ("Panic", "Failed") and isinstance(x[1], str) and x[1] not in ("NotFound", "Ambiguous"):
                return [x[0], 999999]
            return [fix(y) for y in x]
        return x
    return fix(e)


def term(case, res):
    n_att = (max([c["k"] for c in res["calls"]]) + 1) if res["calls"] else 0
    groups = [[c for c in res["calls"] if c["k"] == k] for k in range(n_att)]
    # attempts that made no callback at all still count: pad to the number of attempts seen in the stream
    seen = []
    for e in res["events"]:
        if e[0] == "Scen":
            key = tuple(e[4]) if e[4] else None
            if key not in seen:
                seen.append(key)
    while len(groups) < len(seen):
        groups.append([])
    return "(mk_acase %s %s %s %s %s)" % (
        clist(case["attempts"], lambda s: c_input(case, s)),
        clist([sanitize_ev(e) for e in res["events"]], evgen.cev),
        clist(groups, lambda g: clist(g, c_call)),
        cN(res["hook_calls_during_run"]), cbool(res["hook_restored"]))


def panic_result(case):
    return dict(events=[], calls=[], hook_calls_during_run=0, hook_restored=True)


def nontrivial(case, res):
    nsteps = len(case["fbg"]) + len(case["rbg"] or []) + len(case["steps"])
    return nsteps >= 2 and (case["before"] or case["after"] or case["retry"])


def describe(case, res):
    keys = ["hooks=%s%s" % ("B" if case["before"] else "-", "A" if case["after"] else "-"),
            "retry=%s" % case["retry"], "rule=%s" % (case["rbg"] is not None)]
    if res and "events" in res:
        n = len({tuple(e[4]) if e[4] else None for e in res["events"] if e[0] == "Scen"})
        keys.append("attempts=%d" % n)
    return keys


RULE = ("cases = one scenario with 0-2 feature-background, 0-2 rule-background (or no rule) and 0-3 own steps, each step matching "
        "one / no / two definitions, with or without before and after hooks, with @retry(N) N in 0..3 or no retries, and a script "
        "per attempt saying what World::new does (ok / Err / panic), which hooks and steps panic and with which payload type "
        "(String, &str, u32); the REAL runner::Basic runs it (concurrency none/1/2), the whole event stream and every callback "
        "(World::new, hooks, steps with the World instance id and its mutation log, the after hook's reason) are recorded. "
        "Non-trivial = at least two steps and at least one of (hook, retries); distinct = SHA-1 of the canonical case JSON.")
TRUSTED = [
    "Coq 8.16.1 kernel; vm_compute for evaluating model and monitors on cases",
    "hand-written model coq/Model/Attempt.v of Executor::run_scenario (src/runner/basic.rs:1165-1800), tied by this differential check",
    "the harness identifies the attempt a callback belongs to by counting World::new calls (see harness/src/engines/attempt.rs)",
    "Rust harness /verif/harness (engine attempt), python orchestrator /verif/lib",
]
