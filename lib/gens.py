"""Shared case generators and Coq renderers for Gherkin data."""
from vcheck import cN, cstr, cbool, copt, clist, cpair

# parameterised look-alikes on purpose: `allow` vs `allow.skipped`, `db` vs `db.postgres`, `retry` vs `retry(3)`, `x` vs `x1`
TAGS = ["x", "y", "z", "serial", "allow.skipped", "allow", "flaky", "wip", "é", "db", "db.postgres", "retry", "retry(3)", "x1"]
NAMES = ["a", "b", "login", "log out", "a<b>&\"c'", "ünï", "", "a b c", "x1", "retry me"]
STEPS = ["foo", "bar 1", "baz \"q\"", "an <arg>", "é step", "x"]


class Ids:
    def __init__(self, start=1):
        self.n = start

    def next(self):
        self.n += 1
        return self.n


def gen_step(rng, ids, texts=STEPS):
    return dict(id=ids.next(), ty=rng.randrange(3), value=rng.choice(texts))


def gen_tags(rng, pool=TAGS, maxn=3):
    return [rng.choice(pool) for _ in range(rng.randrange(maxn + 1))]


def gen_scen(rng, ids, max_steps=3, names=NAMES, tags=TAGS, texts=STEPS):
    return dict(id=ids.next(), name=rng.choice(names), tags=gen_tags(rng, tags),
                steps=[gen_step(rng, ids, texts) for _ in range(rng.randrange(max_steps + 1))])


def gen_rule(rng, ids, max_scen=3, max_bg=2, **kw):
    return dict(id=ids.next(), name=rng.choice(kw.get("names", NAMES)), tags=gen_tags(rng, kw.get("tags", TAGS)),
                bg=[gen_step(rng, ids) for _ in range(rng.randrange(max_bg + 1))],
                scenarios=[gen_scen(rng, ids, **kw) for _ in range(rng.randrange(max_scen + 1))])


def gen_feature(rng, ids=None, max_scen=4, max_rules=2, max_bg=2, path=None, **kw):
    ids = ids or Ids(rng.randrange(1, 50) * 100)
    f = dict(id=ids.next(), name=rng.choice(kw.get("names", NAMES)), tags=gen_tags(rng, kw.get("tags", TAGS)),
             path=(rng.random() < 0.8) if path is None else path,
             bg=[gen_step(rng, ids) for _ in range(rng.randrange(max_bg + 1))],
             scenarios=[gen_scen(rng, ids, **kw) for _ in range(rng.randrange(max_scen + 1))],
             rules=[gen_rule(rng, ids, **kw) for _ in range(rng.randrange(max_rules + 1))])
    return f


def all_scenarios(f):
    out = [(None, s) for s in f["scenarios"]]
    for r in f["rules"]:
        out += [(r, s) for s in r["scenarios"]]
    return out


def tagexpr(rng, depth, pool=TAGS):
    if depth == 0 or rng.random() < 0.3:
        return {"tag": rng.choice(pool)}
    k = rng.randrange(3)
    if k == 0:
        return {"and": [tagexpr(rng, depth - 1, pool), tagexpr(rng, depth - 1, pool)]}
    if k == 1:
        return {"or": [tagexpr(rng, depth - 1, pool), tagexpr(rng, depth - 1, pool)]}
    return {"not": tagexpr(rng, depth - 1, pool)}


# ---- Coq renderers
def cstep(s):
    return "(mk_step %s %s %s)" % (cN(s["id"]), cN(s["ty"]), cstr(s["value"]))


def cscen(s):
    return "(mk_scen %s %s %s %s)" % (cN(s["id"]), cstr(s["name"]), clist(s["tags"], cstr), clist(s["steps"], cstep))


def crule(r):
    return "(mk_rule %s %s %s %s %s)" % (cN(r["id"]), cstr(r["name"]), clist(r["tags"], cstr), clist(r["bg"], cstep),
                                       clist(r["scenarios"], cscen))


def cfeature(f):
    return "(mk_feature %s %s %s %s %s %s)" % (cN(f["id"]), cstr(f["name"]), clist(f["tags"], cstr), clist(f["bg"], cstep),
                                             clist(f["scenarios"], cscen), clist(f["rules"], crule))
