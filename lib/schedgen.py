"""Cases for the `sched` engine (C03-C08): the real runner under the gated harness."""
from vcheck import cN, cbool, copt, clist, cpair
import evgen


def gen_scen(rng, sid, rule):
    retry = None
    if rng.random() < 0.5:
        n = rng.randrange(0, 3)
        retry = [n, rng.choice([30, 30, 5, 40, 1]) if rng.random() < 0.4 else None]   # 1, 5, 40 ms: a clock tick of the same size hits the deadline exactly
    budget = retry[0] if retry else 0
    fails = rng.choice([0, 0, 1, 1, 2, 3])
    fails = min(fails, budget + 1)
    return dict(id=sid, rule=rule, serial=rng.random() < 0.2, retry=retry, fails=fails, steps=rng.choice([1, 1, 2]))


def gen_feature(rng, fid):
    scs = []
    sid = fid * 10
    for _ in range(rng.choice([0, 1, 2, 3])):
        sid += 1
        scs.append(gen_scen(rng, sid, None))
    for ri in range(rng.choice([0, 0, 1, 2])):
        rid = fid * 10 + 7 + ri
        for _ in range(rng.choice([1, 2])):
            sid += 1
            scs.append(gen_scen(rng, sid if sid % 10 < 7 else sid + 3, rid))
            sid = scs[-1]["id"]
    f = dict(id=fid, empty_rules=rng.choice([0, 0, 1]), scenarios=scs, serial_feature=False, serial_rules=[])
    for sc in scs:
        sc["serial_own"] = sc["serial"]
    # @serial inherited from the feature or from a rule (gherkin does not copy tags downwards: the classifier must look up)
    x = rng.random()
    if x < 0.08:
        f["serial_feature"] = True
        for sc in scs:
            sc["serial"], sc["serial_own"] = True, rng.random() < 0.2
    elif x < 0.2:
        rids = sorted({sc["rule"] for sc in scs if sc["rule"] is not None})
        if rids:
            rid = rng.choice(rids)
            f["serial_rules"] = [rid]
            for sc in scs:
                if sc["rule"] == rid:
                    sc["serial"], sc["serial_own"] = True, False
    return f


def gen_one(rng):
    items = []
    nf = rng.choice([1, 2, 2, 3])
    for i in range(nf):
        items.append(gen_feature(rng, 10 + i))
        if rng.random() < 0.15:
            items.append(dict(error=900 + i))
    if rng.random() < 0.1:
        items.insert(0, dict(error=899))
    directed = rng.random() < 0.1
    if directed:
        # a delayed retry waits while the (lazy) parser delivers a later feature with a serial and a concurrent scenario
        def sc(i, **kw):
            d = dict(id=i, rule=None, serial=False, serial_own=False, retry=None, fails=0, steps=1)
            d.update(kw)
            return d
        items = [dict(id=10, empty_rules=0, serial_feature=False, serial_rules=[],
                      scenarios=[sc(101, retry=[rng.choice([1, 2]), rng.choice([30, 40])], fails=1), sc(102, steps=rng.choice([1, 2])),
                                 sc(103)][:rng.choice([2, 3])]),
                 dict(id=11, empty_rules=0, serial_feature=False, serial_rules=[],
                      scenarios=[sc(111, serial=True, serial_own=True), sc(112), sc(113)][:rng.choice([2, 3])])]
    case = dict(items=items,
                conc_cli=rng.choice([None, None, None, 1, 2, 3]),
                conc_builder=rng.choice(["default", None, 1, 2, 2, 4]),
                ff_cli=rng.random() < 0.15, ff_builder=rng.random() < 0.15,
                eager=rng.random() < 0.4, seed=rng.randrange(1, 1 << 30),
                p_parser=rng.choice([10, 30, 60]), p_tick=rng.choice([0, 10, 30]), p_multi=rng.choice([0, 0, 30, 70]),
                max_rounds=rng.choice([60, 200, 400]))
    if directed:
        case.update(eager=False, p_parser=10, p_tick=rng.choice([10, 30]), ff_cli=False, ff_builder=False,
                    conc_cli=None, conc_builder=rng.choice([2, 2, 4]))
    # an after hook that panics in the first `afails` attempts of some scenarios (a failed after hook alone makes
    # the attempt a failed one: it is retried, and it trips fail-fast when final)
    case["after_hook"] = rng.random() < 0.35
    for it in items:
        for sc in it.get("scenarios", []):
            sc["afails"] = 0
            if case["after_hook"] and rng.random() < 0.4:
                budget = sc["retry"][0] if sc["retry"] else 0
                sc["afails"] = min(rng.choice([1, 1, 2]), budget + 1)
    # a scenario without steps (nothing to run, but it is started and finished like any other)
    for it in case["items"]:
        for sc in it.get("scenarios", []):
            if rng.random() < 0.07:
                sc.update(steps=0, fails=0, afails=0, bfails=0)
    # released steps do not complete in lock-step: some suspend 1-3 more times before they return
    for it in case["items"]:
        for sc in it.get("scenarios", []):
            sc["yields"] = rng.choice([0, 0, 1, 2, 3])
    # the after hook takes (virtual) time: it waits for a gate of its own, clock ticks may pass meanwhile
    case["after_gated"] = bool(case.get("after_hook")) and rng.random() < 0.7
    if case["after_gated"] and case.get("p_tick", 0) == 0:
        case["p_tick"] = 30            # time must be able to pass while a hook waits
    # let real time pass now and then while the runner is quiescent (a hooked runner keeps no real-time timer)
    case["real_wait"] = rng.random() < 0.08
    # a user `which_scenario` classifier (classifying like the default one) installed last in the builder chain
    case["custom_which"] = rng.random() < 0.3
    # with a custom classifier some serial scenarios carry NO tag: only the classifier (by scenario id) says Serial
    if case["custom_which"]:
        for it in case["items"]:
            for sc in it.get("scenarios", []):
                if sc.get("serial") and sc.get("serial_own") and rng.random() < 0.6:
                    sc["serial_by_classifier"] = True
    # a before hook that panics (eagerly, in the hook function itself, or inside its future) in the first attempts
    case["before_hook"] = rng.random() < 0.25
    for it in items:
        for sc in it.get("scenarios", []):
            sc["bfails"], sc["beager"] = 0, False
            if case["before_hook"] and rng.random() < 0.3:
                budget = sc["retry"][0] if sc["retry"] else 0
                sc["bfails"] = min(rng.choice([1, 1, 2]), budget + 1)
                sc["beager"] = rng.random() < 0.5
    return case


def gen(rng, tier):
    n = 3000 if tier == "thorough" else 300
    return [gen_one(rng) for _ in range(n)]


# ------------------------------------------------------------------ Coq rendering
def cnat(n):
    return "%d%%nat" % n


def c_sscen(sc):
    retry = "None"
    if sc["retry"] is not None:
        d = sc["retry"][1]
        retry = "(Some (%s, %s))" % (cN(sc["retry"][0]), copt(None if d is None else d * 1000000))
    return "(mk_sscen %s %s %s %s)" % (cN(sc["id"]), copt(sc["rule"]), cbool(sc["serial"]), retry)


def c_item(it):
    if "error" in it:
        return "(IError %s)" % cN(it["error"])
    rules = {sc["rule"] for sc in it["scenarios"] if sc["rule"] is not None}
    nsteps = sum(sc["steps"] for sc in it["scenarios"])
    return "(IFeature (mk_sfeature %s %s %s %s))" % (
        cN(it["id"]), clist(it["scenarios"], c_sscen), cN(len(rules) + it["empty_rules"]), cN(nsteps))


def c_rec(r):
    k = r[0]
    t = cN(r[-1])
    if k == "top":
        return "(HTop %s, %s)" % (cN(r[1]), t)
    if k == "feat":
        return "(HFeat, %s)" % t
    if k == "ev":
        return "(HEv %s, %s)" % (evgen.cev(r[1]), t)
    if k == "stim":
        if r[1] == "P":
            return "(HStimP, %s)" % t
        if r[1] == "G":
            return "(HStimG %s, %s)" % (cN(r[2]), t)
        return "(HStimT %s, %s)" % (cN(r[2]), t)
    if k == "cb":
        return "(HCb %s %s %s, %s)" % (cbool(r[1] == 1), cN(r[2]), cN(r[3]), t)
    if k == "stutter":
        return "(HStutter, %s)" % t
    if k == "end":
        return "(HEnd, %s)" % t
    raise ValueError("record %r" % (r,))


def term(case, res):
    cb = case["conc_builder"]
    builder = "None" if cb == "default" else "(Some %s)" % ("None" if cb is None else "(Some %s)" % cnat(cb))
    cli = "None" if case["conc_cli"] is None else "(Some %s)" % cnat(case["conc_cli"])
    hang = bool(res.get("hang"))
    hist = res.get("history", [])
    if not res.get("terminated") and len(hist) > 2500:
        # a run that did not end (the harness gave up after its round limit): the history is a prefix with thousands of
        # idle turns; a prefix of it is enough to judge (and all the Coq evaluator can take)
        hist = hist[:2500]
    return "(mk_sdcase %s %s %s %s %s %s %s %s)" % (
        cli, builder, cbool(case["ff_cli"]), cbool(case["ff_builder"]), clist(case["items"], c_item),
        clist(hist, c_rec), cbool(bool(res.get("terminated"))), cbool(hang))


def panic_result(case):
    return dict(history=[], terminated=False)


def nscen(case):
    return sum(len(it.get("scenarios", [])) for it in case["items"])


def nontrivial(case, res):
    scs = [sc for it in case["items"] for sc in it.get("scenarios", [])]
    return len(scs) >= 2 and (any(sc["retry"] for sc in scs) or any(sc["serial"] for sc in scs)
                              or any(sc["fails"] or sc.get("afails") or sc.get("bfails") for sc in scs) or not case["eager"])


def describe(case, res):
    scs = [sc for it in case["items"] for sc in it.get("scenarios", [])]
    k = case["conc_cli"] if case["conc_cli"] is not None else case["conc_builder"]
    keys = ["K=%s" % k, "parser=%s" % ("eager" if case["eager"] else "lazy"),
            "ff=%s" % (case["ff_cli"] or case["ff_builder"]),
            "serial=%s" % any(sc["serial"] for sc in scs),
            "serial_inherited=%s" % any(sc["serial"] and not sc.get("serial_own", True) for sc in scs), "retry=%s" % any(sc["retry"] for sc in scs),
            "delay=%s" % any(sc["retry"] and sc["retry"][1] for sc in scs),
            "after_hook_failure=%s" % any(sc.get("afails") for sc in scs),
            "before_hook_failure=%s" % any(sc.get("bfails") for sc in scs),
            "custom_which=%s" % bool(case.get("custom_which")), "after_gated=%s" % bool(case.get("after_gated")),
            "real_wait=%s" % bool(case.get("real_wait")), "stepless=%s" % any(sc.get("steps") == 0 for sc in scs), "classifier_only_serial=%s" % any(sc.get("serial_by_classifier") for sc in scs), "step_yields=%s" % any(sc.get("yields") for sc in scs),
            "scen=%s" % ("0" if not scs else "<3" if len(scs) < 3 else "<6" if len(scs) < 6 else ">=6")]
    if res is not None:
        keys.append("hang=%s" % bool(res.get("hang")))
    return keys


RULE = ("cases = 1-3 features (0-3 top-level scenarios, 0-2 rules of 1-2 scenarios, empty rules) and 0-2 parser errors, each "
        "scenario serial or not (tag on the scenario, or inherited from its rule or feature), with @retry(N) N in 0..2 optionally .after(30ms), failing its first k attempts, 1-2 gated steps (a released step suspends 0-3 more times before it returns); in 35% of the cases an after hook that panics in the first 1-2 attempts of "
        "40% of the scenarios (a failed after hook alone makes the attempt a failed one), in 25% a before hook that panics — "
        "eagerly or inside its future — in the first 1-2 attempts of 30% of the scenarios (no step of that attempt runs); "
        "a custom `which_scenario` classifier installed last in the builder chain in 30%; concurrency from CLI (none/1/2/3) and builder (default 64 / unlimited / 1 / 2 / 4), fail-fast from CLI and/or builder; "
        "parser eager (all items ready) or lazy (items released by stimuli, Pending otherwise). The REAL runner::Basic is polled "
        "manually; stimuli (release a parser item, let one scenario pass one callback, advance the virtual clock) are drawn from "
        "the case's PRNG among the enabled ones; the hook's trace points, the events, the callbacks and the stimuli form one "
        "totally ordered history, which the Coq model must replay label for label. Non-trivial = at least two scenarios and at "
        "least one of (retry, serial, failure, lazy parser); distinct = SHA-1 of the canonical case JSON.")
TRUSTED = [
    "Coq 8.16.1 kernel; vm_compute for replaying histories through the model and evaluating the monitors",
    "hand-written model coq/Model/Sched.v of insert_features / execute / Features / FinishedRulesAndFeatures "
    "(src/runner/basic.rs), tied by trace validation: the label list is read off the observed history, the model must accept it, "
    "regenerate the observed event stream, end in Done and agree on the virtual clock",
    "the verif hooks in /repo (virtual clock, trace points), built with --cfg cucumber_rs_cucumber_verif",
    "Rust harness /verif/harness (engine sched: gates, lazy parser, manual polling, watchdog), python orchestrator /verif/lib",
]
