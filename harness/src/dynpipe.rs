//! Dynamically assembled writer pipelines over the REAL combinators.
//!
//! Pipeline JSON:
//!   {"leaf": id, "stats": [p,s,f,r,pe,h]}
//!   {"fos": null | [scenario ids...], "p": pipe}
//!   {"repeat": "skipped" | "failed" | [metas...], "p": pipe}
//!   {"tee": [l, r]} | {"or": [metas going left...], "l": pipe, "r": pipe}
//!   {"discard_arb": pipe} | {"discard_stats": pipe}
//!   {"normalize": pipe} | {"summarize": pipe}          (used by other engines)
//! Everything below a combinator is boxed behind `BoxW`, which implements the
//! cucumber writer traits by delegation; all futures involved are ready at
//! once, so they are driven by a single poll.

use std::{
    cell::RefCell,
    future::Future,
    pin::pin,
    rc::Rc,
    task::{Context, Poll, Waker},
};

use cucumber::{
    Writer, WriterExt as _, cli,
    writer::{self, Arbitrary, Stats},
};
use serde_json::{Value, json};

use crate::events::{Ev, EvW, ev_json};

/// Drives a future that never has to wait.
pub fn now<F: Future>(f: F) -> F::Output {
    let mut f = pin!(f);
    let mut cx = Context::from_waker(Waker::noop());
    for _ in 0..1_000_000 {
        if let Poll::Ready(v) = f.as_mut().poll(&mut cx) {
            return v;
        }
    }
    panic!("future did not complete");
}

pub type Log = Rc<RefCell<Vec<Value>>>;

pub trait DynW {
    fn handle(&mut self, ev: Ev);
    fn write(&mut self, val: String);
    fn stats(&self) -> [usize; 6];
    fn failed(&self) -> bool;
    /// Writer-specific extra observations (e.g. Summarize's scenario statistics).
    fn extra(&self) -> Value {
        Value::Null
    }
}

pub struct BoxW(pub Box<dyn DynW>);

impl Writer<EvW> for BoxW {
    type Cli = cli::Empty;
    async fn handle_event(&mut self, ev: Ev, _: &cli::Empty) {
        self.0.handle(ev);
    }
}
impl<'a> Arbitrary<EvW, &'a str> for BoxW {
    async fn write(&mut self, val: &'a str) {
        self.0.write(val.to_owned());
    }
}
impl Arbitrary<EvW, String> for BoxW {
    async fn write(&mut self, val: String) {
        self.0.write(val);
    }
}
impl Stats<EvW> for BoxW {
    fn passed_steps(&self) -> usize {
        self.0.stats()[0]
    }
    fn skipped_steps(&self) -> usize {
        self.0.stats()[1]
    }
    fn failed_steps(&self) -> usize {
        self.0.stats()[2]
    }
    fn retried_steps(&self) -> usize {
        self.0.stats()[3]
    }
    fn parsing_errors(&self) -> usize {
        self.0.stats()[4]
    }
    fn hook_errors(&self) -> usize {
        self.0.stats()[5]
    }
    fn execution_has_failed(&self) -> bool {
        self.0.failed()
    }
}
impl writer::NonTransforming for BoxW {}
impl writer::Normalized for BoxW {}

/// Recording leaf.
pub struct Leaf {
    id: u64,
    stats: [usize; 6],
    log: Log,
}
impl DynW for Leaf {
    fn handle(&mut self, ev: Ev) {
        let mut j = ev_json(&ev);
        j["leaf"] = json!(self.id);
        self.log.borrow_mut().push(j);
    }
    fn write(&mut self, val: String) {
        self.log.borrow_mut().push(json!({"leaf": self.id, "write": val}));
    }
    fn stats(&self) -> [usize; 6] {
        self.stats
    }
    fn failed(&self) -> bool {
        self.stats[2] > 0 || self.stats[4] > 0 || self.stats[5] > 0
    }
}

fn stats_of<T: Stats<EvW>>(w: &T) -> [usize; 6] {
    [
        w.passed_steps(),
        w.skipped_steps(),
        w.failed_steps(),
        w.retried_steps(),
        w.parsing_errors(),
        w.hook_errors(),
    ]
}

/// Adapter for writers with `Cli = cli::Empty` that support `write`.
struct Full<T>(T);
impl<T> DynW for Full<T>
where
    T: Writer<EvW, Cli = cli::Empty> + Arbitrary<EvW, String> + Stats<EvW>,
{
    fn handle(&mut self, ev: Ev) {
        now(self.0.handle_event(ev, &cli::Empty));
    }
    fn write(&mut self, val: String) {
        now(self.0.write(val));
    }
    fn stats(&self) -> [usize; 6] {
        stats_of(&self.0)
    }
    fn failed(&self) -> bool {
        self.0.execution_has_failed()
    }
}

type C2 = cli::Compose<cli::Empty, cli::Empty>;
fn c2() -> C2 {
    cli::Compose { left: cli::Empty, right: cli::Empty }
}

/// Adapter for `Tee` (composed Cli, supports `write`).
struct Tee2<T>(T);
impl<T> DynW for Tee2<T>
where
    T: Writer<EvW, Cli = C2> + Arbitrary<EvW, String> + Stats<EvW>,
{
    fn handle(&mut self, ev: Ev) {
        now(self.0.handle_event(ev, &c2()));
    }
    fn write(&mut self, val: String) {
        now(self.0.write(val));
    }
    fn stats(&self) -> [usize; 6] {
        stats_of(&self.0)
    }
    fn failed(&self) -> bool {
        self.0.execution_has_failed()
    }
}

/// Adapter for `Or` (composed Cli, NO `Arbitrary` impl).
struct Or2<T>(T, Log);
impl<T> DynW for Or2<T>
where
    T: Writer<EvW, Cli = C2> + Stats<EvW>,
{
    fn handle(&mut self, ev: Ev) {
        now(self.0.handle_event(ev, &c2()));
    }
    fn write(&mut self, val: String) {
        self.1.borrow_mut().push(json!({"unsupported_write": val}));
    }
    fn stats(&self) -> [usize; 6] {
        stats_of(&self.0)
    }
    fn failed(&self) -> bool {
        self.0.execution_has_failed()
    }
}

/// Adapter for `Summarize` (exposes scenario / step statistics as `extra`).
struct Summ(writer::Summarize<BoxW>);
impl DynW for Summ {
    fn handle(&mut self, ev: Ev) {
        now(self.0.handle_event(ev, &cli::Empty));
    }
    fn write(&mut self, val: String) {
        now(Arbitrary::<EvW, String>::write(&mut self.0, val));
    }
    fn stats(&self) -> [usize; 6] {
        stats_of(&self.0)
    }
    fn failed(&self) -> bool {
        self.0.execution_has_failed()
    }
    fn extra(&self) -> Value {
        let sc = self.0.scenarios_stats();
        let st = self.0.steps_stats();
        json!({
            "sc": [sc.passed, sc.skipped, sc.failed, sc.retried],
            "st": [st.passed, st.skipped, st.failed, st.retried],
        })
    }
}

/// Shared byte sink.
#[derive(Clone, Default)]
pub struct Sink(pub Rc<RefCell<Vec<u8>>>);
thread_local! {
    /// `Some(k)`: every `write()` call of a `Sink` accepts at most k bytes (a nearly full pipe, a bounded buffer): the
    /// `io::Write` contract allows short writes, a reporter must not lose the rest.
    pub static SHORT_WRITES: std::cell::Cell<Option<usize>> = const { std::cell::Cell::new(None) };
}
impl std::io::Write for Sink {
    fn write(&mut self, buf: &[u8]) -> std::io::Result<usize> {
        let n = SHORT_WRITES.with(std::cell::Cell::get).map_or(buf.len(), |k| buf.len().min(k.max(1)));
        self.0.borrow_mut().extend_from_slice(&buf[..n]);
        Ok(n)
    }
    fn flush(&mut self) -> std::io::Result<()> {
        Ok(())
    }
}

pub fn libtest_cli() -> writer::libtest::Cli {
    writer::libtest::Cli {
        format: Some(writer::libtest::Format::Json),
        show_output: false,
        report_time: None,
        nightly: None,
    }
}

/// Adapter for `Libtest` (raw or normalized): own Cli, no `Arbitrary`.
struct Lib<T>(T, Log);
impl<T> DynW for Lib<T>
where
    T: Writer<EvW, Cli = writer::libtest::Cli> + Stats<EvW>,
{
    fn handle(&mut self, ev: Ev) {
        now(self.0.handle_event(ev, &libtest_cli()));
    }
    fn write(&mut self, val: String) {
        self.1.borrow_mut().push(json!({"unsupported_write": val}));
    }
    fn stats(&self) -> [usize; 6] {
        stats_of(&self.0)
    }
    fn failed(&self) -> bool {
        self.0.execution_has_failed()
    }
}

fn ids(v: &Value) -> Vec<u64> {
    v.as_array().map(|a| a.iter().filter_map(Value::as_u64).collect()).unwrap_or_default()
}

fn meta_of_ev(ev: &Ev) -> u64 {
    ev_json(ev)["meta"].as_u64().unwrap_or(u64::MAX)
}

pub fn build(p: &Value, log: &Log) -> BoxW {
    let o = p.as_object().expect("pipe object");
    if let Some(id) = o.get("leaf") {
        let st = ids(&o["stats"]);
        let mut stats = [0usize; 6];
        for (i, v) in st.iter().enumerate().take(6) {
            stats[i] = *v as usize;
        }
        return BoxW(Box::new(Leaf { id: id.as_u64().unwrap_or(0), stats, log: Rc::clone(log) }));
    }
    if let Some(k) = o.get("fos") {
        let inner = build(&o["p"], log);
        return if k.is_null() {
            BoxW(Box::new(Full(inner.fail_on_skipped())))
        } else {
            let failing = ids(k);
            BoxW(Box::new(Full(inner.fail_on_skipped_with(move |_, _, s| {
                failing.contains(&(s.position.line as u64))
            }))))
        };
    }
    if let Some(k) = o.get("repeat") {
        let inner = build(&o["p"], log);
        return match k.as_str() {
            Some("skipped") => BoxW(Box::new(Full(inner.repeat_skipped::<EvW>()))),
            Some("failed") => BoxW(Box::new(Full(inner.repeat_failed::<EvW>()))),
            _ => {
                let metas = ids(k);
                BoxW(Box::new(Full(
                    inner.repeat_if::<EvW, _>(move |ev| metas.contains(&meta_of_ev(ev))),
                )))
            }
        };
    }
    if let Some(t) = o.get("tee") {
        let l = build(&t[0], log);
        let r = build(&t[1], log);
        return BoxW(Box::new(Tee2(l.tee::<EvW, _>(r))));
    }
    if let Some(m) = o.get("or") {
        let l = build(&o["l"], log);
        let r = build(&o["r"], log);
        let metas = ids(m);
        return BoxW(Box::new(Or2(
            writer::Or::new(l, r, move |ev: &Ev, _: &C2| metas.contains(&meta_of_ev(ev))),
            Rc::clone(log),
        )));
    }
    if let Some(q) = o.get("discard_arb") {
        return BoxW(Box::new(Full(build(q, log).discard_arbitrary_writes())));
    }
    if let Some(q) = o.get("discard_stats") {
        return BoxW(Box::new(Full(build(q, log).discard_stats_writes())));
    }
    if let Some(q) = o.get("summarize") {
        return BoxW(Box::new(Summ(writer::Summarize::new(build(q, log)))));
    }
    if o.contains_key("libtest") {
        return BoxW(Box::new(Lib(
            writer::Libtest::<EvW, Sink>::raw(Sink::default()),
            Rc::clone(log),
        )));
    }
    if o.contains_key("norm_libtest") {
        return BoxW(Box::new(Lib(
            writer::Libtest::<EvW, Sink>::new(Sink::default()),
            Rc::clone(log),
        )));
    }
    if let Some(q) = o.get("normalize") {
        return BoxW(Box::new(Full(build(q, log).normalized::<EvW>())));
    }
    panic!("unknown pipe node {p}");
}
