//! `vh <engine>`: reads one JSON case per line on stdin, runs the REAL
//! cucumber code on it and prints one JSON result per line on stdout.
//! The orchestrator (`/verif/check`) renders case + result as Coq terms and
//! lets the Coq models judge them.

mod dynpipe;
mod engines;
mod events;
mod util;

use std::io::{BufRead as _, Write as _};

fn main() {
    let engine = std::env::args().nth(1).unwrap_or_default();
    let f: fn(&serde_json::Value) -> serde_json::Value = match engine.as_str() {
        "retryopts" => engines::retryopts::run,
        "exit" => engines::exit::run,
        "twins" => engines::twins::run,
        "realclock" => engines::realclock::run,
        "filter" => engines::filter::run,
        "attempt" => engines::attempt::run,
        "glue" => engines::zoo::run,
        "reporters" => engines::reporters::run,
        "sched" => {
            engines::sched::start_watchdog();
            engines::sched::run
        }
        "combinators" => engines::combinators::run,
        "outline" => engines::outline::run,
        "stepmatch" => engines::stepmatch::run,
        other => {
            eprintln!("unknown engine `{other}`");
            std::process::exit(2);
        }
    };
    let stdin = std::io::stdin();
    for line in stdin.lock().lines() {
        let line = line.expect("stdin");
        if line.trim().is_empty() {
            continue;
        }
        let case: serde_json::Value =
            serde_json::from_str(&line).expect("case is JSON");
        let id = case.get("id").cloned().unwrap_or(serde_json::Value::Null);
        let res = std::panic::catch_unwind(|| f(&case));
        let mut v = match res {
            Ok(v) => v,
            Err(p) => serde_json::json!({
                "harness_panic": util::payload_to_string(&p),
            }),
        };
        v["id"] = id;
        // user-visible prints of the code under test (e.g. Libtest forwards Log events with `print!`)
        // may precede the result on the same line: start a fresh, marked line
        {
            // locked only while writing: the sched watchdog thread must be able to print too
            let mut out = std::io::stdout().lock();
            writeln!(out, "\n@@R {v}").expect("stdout");
            out.flush().expect("flush");
        }
    }
}
