//! Shared helpers of the harness.

use std::any::Any;

use serde_json::Value;

pub fn payload_to_string(p: &Box<dyn Any + Send>) -> String {
    if let Some(s) = p.downcast_ref::<String>() {
        s.clone()
    } else if let Some(s) = p.downcast_ref::<&str>() {
        (*s).to_owned()
    } else {
        "<non-string payload>".to_owned()
    }
}

pub fn strs(v: &Value) -> Vec<String> {
    v.as_array()
        .map(|a| {
            a.iter().map(|s| s.as_str().unwrap_or_default().to_owned()).collect()
        })
        .unwrap_or_default()
}

pub fn opt_u64(v: &Value) -> Option<u64> {
    v.as_u64()
}

/// Tag expression from its JSON tree:
/// `{"and":[l,r]} | {"or":[l,r]} | {"not":t} | {"tag":"name"}`.
pub fn tagop(v: &Value) -> Option<gherkin::tagexpr::TagOperation> {
    use gherkin::tagexpr::TagOperation as T;
    if v.is_null() {
        return None;
    }
    let o = v.as_object()?;
    if let Some(a) = o.get("and") {
        Some(T::And(Box::new(tagop(&a[0])?), Box::new(tagop(&a[1])?)))
    } else if let Some(a) = o.get("or") {
        Some(T::Or(Box::new(tagop(&a[0])?), Box::new(tagop(&a[1])?)))
    } else if let Some(t) = o.get("not") {
        Some(T::Not(Box::new(tagop(t)?)))
    } else {
        Some(T::Tag(o.get("tag")?.as_str()?.to_owned()))
    }
}

pub fn tagop_json(t: &gherkin::tagexpr::TagOperation) -> Value {
    use gherkin::tagexpr::TagOperation as T;
    match t {
        T::And(l, r) => serde_json::json!({"and": [tagop_json(l), tagop_json(r)]}),
        T::Or(l, r) => serde_json::json!({"or": [tagop_json(l), tagop_json(r)]}),
        T::Not(t) => serde_json::json!({"not": tagop_json(t)}),
        T::Tag(t) => serde_json::json!({"tag": t}),
    }
}

/// Minimal `gherkin::Feature` built by hand (no parser involved).
pub fn feature(name: &str, tags: Vec<String>) -> gherkin::Feature {
    gherkin::Feature {
        keyword: "Feature".into(),
        name: name.into(),
        description: None,
        background: None,
        scenarios: vec![],
        rules: vec![],
        tags,
        span: gherkin::Span { start: 0, end: 0 },
        position: gherkin::LineCol { line: 1, col: 1 },
        path: None,
    }
}

pub fn rule(name: &str, tags: Vec<String>, line: usize) -> gherkin::Rule {
    gherkin::Rule {
        keyword: "Rule".into(),
        name: name.into(),
        description: None,
        background: None,
        scenarios: vec![],
        tags,
        span: gherkin::Span { start: 0, end: 0 },
        position: gherkin::LineCol { line, col: 1 },
    }
}

pub fn scenario(name: &str, tags: Vec<String>, line: usize) -> gherkin::Scenario {
    gherkin::Scenario {
        keyword: "Scenario".into(),
        name: name.into(),
        description: None,
        steps: vec![],
        examples: vec![],
        tags,
        span: gherkin::Span { start: 0, end: 0 },
        position: gherkin::LineCol { line, col: 1 },
    }
}

pub fn step(
    ty: gherkin::StepType,
    value: &str,
    line: usize,
) -> gherkin::Step {
    gherkin::Step {
        keyword: match ty {
            gherkin::StepType::Given => "Given ".into(),
            gherkin::StepType::When => "When ".into(),
            gherkin::StepType::Then => "Then ".into(),
        },
        ty,
        value: value.into(),
        docstring: None,
        table: None,
        span: gherkin::Span { start: 0, end: 0 },
        position: gherkin::LineCol { line, col: 3 },
    }
}

// ---------------------------------------------------------------- features as JSON
// {"id":line,"name","tags",["path":bool],"bg":[step],"scenarios":[scen],"rules":[rule]}
// scen = {"id":line,"name","tags","steps":[step]}; step = {"id":line,"ty":0|1|2,"value"}
// rule = {"id":line,"name","tags","bg":[step],"scenarios":[scen]}

fn step_ty(n: u64) -> gherkin::StepType {
    match n {
        0 => gherkin::StepType::Given,
        1 => gherkin::StepType::When,
        _ => gherkin::StepType::Then,
    }
}

pub fn step_from_json(v: &Value) -> gherkin::Step {
    step(
        step_ty(v["ty"].as_u64().unwrap_or(0)),
        v["value"].as_str().unwrap_or_default(),
        v["id"].as_u64().unwrap_or(0) as usize,
    )
}

fn steps_from_json(v: &Value) -> Vec<gherkin::Step> {
    v.as_array().map(|a| a.iter().map(step_from_json).collect()).unwrap_or_default()
}

fn background(steps: Vec<gherkin::Step>) -> Option<gherkin::Background> {
    (!steps.is_empty()).then(|| gherkin::Background {
        keyword: "Background".into(),
        name: String::new(),
        description: None,
        steps,
        span: gherkin::Span { start: 0, end: 0 },
        position: gherkin::LineCol { line: 0, col: 1 },
    })
}

pub fn scenario_from_json(v: &Value) -> gherkin::Scenario {
    let mut s = scenario(
        v["name"].as_str().unwrap_or_default(),
        strs(&v["tags"]),
        v["id"].as_u64().unwrap_or(0) as usize,
    );
    s.steps = steps_from_json(&v["steps"]);
    s
}

pub fn rule_from_json(v: &Value) -> gherkin::Rule {
    let mut r = rule(
        v["name"].as_str().unwrap_or_default(),
        strs(&v["tags"]),
        v["id"].as_u64().unwrap_or(0) as usize,
    );
    r.background = background(steps_from_json(&v["bg"]));
    r.scenarios = v["scenarios"]
        .as_array()
        .map(|a| a.iter().map(scenario_from_json).collect())
        .unwrap_or_default();
    r
}

pub fn feature_from_json(v: &Value) -> gherkin::Feature {
    let mut f = feature(v["name"].as_str().unwrap_or_default(), strs(&v["tags"]));
    f.position.line = v["id"].as_u64().unwrap_or(1) as usize;
    if v["path"].as_bool().unwrap_or(false) {
        f.path = Some(format!("/features/f{}.feature", f.position.line).into());
    }
    f.background = background(steps_from_json(&v["bg"]));
    f.scenarios = v["scenarios"]
        .as_array()
        .map(|a| a.iter().map(scenario_from_json).collect())
        .unwrap_or_default();
    f.rules = v["rules"]
        .as_array()
        .map(|a| a.iter().map(rule_from_json).collect())
        .unwrap_or_default();
    f
}

pub fn step_to_json(s: &gherkin::Step) -> Value {
    serde_json::json!({
        "id": s.position.line,
        "ty": match s.ty {
            gherkin::StepType::Given => 0,
            gherkin::StepType::When => 1,
            gherkin::StepType::Then => 2,
        },
        "value": s.value,
    })
}

pub fn scenario_to_json(s: &gherkin::Scenario) -> Value {
    serde_json::json!({
        "id": s.position.line,
        "name": s.name,
        "tags": s.tags,
        "steps": s.steps.iter().map(step_to_json).collect::<Vec<_>>(),
    })
}

pub fn rule_to_json(r: &gherkin::Rule) -> Value {
    serde_json::json!({
        "id": r.position.line,
        "name": r.name,
        "tags": r.tags,
        "bg": r.background.iter().flat_map(|b| &b.steps).map(step_to_json).collect::<Vec<_>>(),
        "scenarios": r.scenarios.iter().map(scenario_to_json).collect::<Vec<_>>(),
    })
}

pub fn feature_to_json(f: &gherkin::Feature) -> Value {
    serde_json::json!({
        "id": f.position.line,
        "name": f.name,
        "tags": f.tags,
        "path": f.path.is_some(),
        "bg": f.background.iter().flat_map(|b| &b.steps).map(step_to_json).collect::<Vec<_>>(),
        "scenarios": f.scenarios.iter().map(scenario_to_json).collect::<Vec<_>>(),
        "rules": f.rules.iter().map(rule_to_json).collect::<Vec<_>>(),
    })
}
