//! Shared helpers of the harness.

use std::any::Any;

use serde_json::Value;

pub fn payload_to_string(p: &Box<dyn Any + Send>) -> String {
    if let Some(s) = p.downcast_ref::<String>() {
        s.clone()
    } else if let Some(s) = p.downcast_ref::<&str>() {
        (*s).to_owned()
    } else {
        "<non-string payload>".to_owned()
    }
}

pub fn strs(v: &Value) -> Vec<String> {
    v.as_array()
        .map(|a| {
            a.iter().map(|s| s.as_str().unwrap_or_default().to_owned()).collect()
        })
        .unwrap_or_default()
}

pub fn opt_u64(v: &Value) -> Option<u64> {
    v.as_u64()
}

/// Tag expression from its JSON tree:
/// `{"and":[l,r]} | {"or":[l,r]} | {"not":t} | {"tag":"name"}`.
pub fn tagop(v: &Value) -> Option<gherkin::tagexpr::TagOperation> {
    use gherkin::tagexpr::TagOperation as T;
    if v.is_null() {
        return None;
    }
    let o = v.as_object()?;
    if let Some(a) = o.get("and") {
        Some(T::And(Box::new(tagop(&a[0])?), Box::new(tagop(&a[1])?)))
    } else if let Some(a) = o.get("or") {
        Some(T::Or(Box::new(tagop(&a[0])?), Box::new(tagop(&a[1])?)))
    } else if let Some(t) = o.get("not") {
        Some(T::Not(Box::new(tagop(t)?)))
    } else {
        Some(T::Tag(o.get("tag")?.as_str()?.to_owned()))
    }
}

pub fn tagop_json(t: &gherkin::tagexpr::TagOperation) -> Value {
    use gherkin::tagexpr::TagOperation as T;
    match t {
        T::And(l, r) => serde_json::json!({"and": [tagop_json(l), tagop_json(r)]}),
        T::Or(l, r) => serde_json::json!({"or": [tagop_json(l), tagop_json(r)]}),
        T::Not(t) => serde_json::json!({"not": tagop_json(t)}),
        T::Tag(t) => serde_json::json!({"tag": t}),
    }
}

/// Minimal `gherkin::Feature` built by hand (no parser involved).
pub fn feature(name: &str, tags: Vec<String>) -> gherkin::Feature {
    gherkin::Feature {
        keyword: "Feature".into(),
        name: name.into(),
        description: None,
        background: None,
        scenarios: vec![],
        rules: vec![],
        tags,
        span: gherkin::Span { start: 0, end: 0 },
        position: gherkin::LineCol { line: 1, col: 1 },
        path: None,
    }
}

pub fn rule(name: &str, tags: Vec<String>, line: usize) -> gherkin::Rule {
    gherkin::Rule {
        keyword: "Rule".into(),
        name: name.into(),
        description: None,
        background: None,
        scenarios: vec![],
        tags,
        span: gherkin::Span { start: 0, end: 0 },
        position: gherkin::LineCol { line, col: 1 },
    }
}

pub fn scenario(name: &str, tags: Vec<String>, line: usize) -> gherkin::Scenario {
    gherkin::Scenario {
        keyword: "Scenario".into(),
        name: name.into(),
        description: None,
        steps: vec![],
        examples: vec![],
        tags,
        span: gherkin::Span { start: 0, end: 0 },
        position: gherkin::LineCol { line, col: 1 },
    }
}

pub fn step(
    ty: gherkin::StepType,
    value: &str,
    line: usize,
) -> gherkin::Step {
    gherkin::Step {
        keyword: match ty {
            gherkin::StepType::Given => "Given ".into(),
            gherkin::StepType::When => "When ".into(),
            gherkin::StepType::Then => "Then ".into(),
        },
        ty,
        value: value.into(),
        docstring: None,
        table: None,
        span: gherkin::Span { start: 0, end: 0 },
        position: gherkin::LineCol { line, col: 3 },
    }
}
