//! Engine `sched` (C03-C08): the REAL `runner::Basic` under a gated, manually
//! polled harness. The harness owns every source of non-determinism:
//!   * the parser stream is a gated stream (items are released by `P` stimuli,
//!     or all at once when `eager`),
//!   * every user callback (step bodies; optionally hooks) awaits a gate keyed
//!     by its scenario; a `G s` stimulus lets scenario `s` pass one callback,
//!   * the clock is the virtual clock of the verif hook (`T d` stimuli advance it).
//! Stimuli are drawn from the case's own PRNG among the ENABLED ones, so a run
//! is a deterministic function of the case. The scheduler-internal trace
//! points of the hook (`verif_trace`) and the harness's own records form ONE
//! totally ordered history, which is what the Coq model replays.
//!
//! Case JSON:
//!   {"conc_cli": null|k, "conc_builder": null|k, "ff_cli": bool, "ff_builder": bool,
//!    "eager": bool, "hooks": bool, "seed": n, "p_parser": 0..100, "p_tick": 0..100,
//!    "items": [ {"id": f, "empty_rules": n, "scenarios": [{"id": s, "rule": null|r, "serial": bool,
//!                "retry": null|[n, null|delay_ms], "fails": k, "afails": k, "steps": n}]} | {"error": id} ]}
//!   "after_hook": bool installs an after hook that panics in the first `afails` attempts of a scenario.
//!   "before_hook": bool installs a before hook that panics in the first `bfails` attempts of a scenario — eagerly
//!                  (in the hook function itself, before it returns its future) when `beager`, else inside the future.
//! Result: {"history": [...], "events": n, "terminated": bool, "rounds": n,
//!          "hook_calls_during_run": n, "hook_restored": bool}   (counting process panic hook, C10)
//!   history records: ["top", batch, t] ["feat", t] ["ev", <event JSON>, t] ["stim", "P"|"G"|"T", arg, t]
//!                    ["cb", 0 enter|1 exit, scenario, attempt-visit, t] ["stutter", t] ["end", t]

use std::{
    cell::RefCell,
    collections::BTreeMap,
    pin::Pin,
    sync::{
        Arc,
        atomic::{AtomicBool, AtomicU64, Ordering},
    },
    task::{Context, Poll, Wake, Waker},
    time::Duration,
};

use cucumber::{
    Runner as _, World, event, parser,
    runner::{
        self,
        basic::{verif_clock, verif_trace},
    },
    step,
};
use futures::{FutureExt as _, Stream, StreamExt as _, future::LocalBoxFuture};
use serde_json::{Value, json};

use crate::{events, util};

#[derive(Default)]
struct GateSt {
    permits: usize,
    waiting: Option<Waker>,
    is_waiting: bool,
}

#[derive(Default)]
struct St {
    gates: BTreeMap<u64, GateSt>,
    visits: BTreeMap<u64, u64>,   // scenario -> attempts seen (first-callback entries)
    fails: BTreeMap<u64, u64>,    // scenario -> number of failing attempts
    afails: BTreeMap<u64, u64>,   // scenario -> number of attempts whose after hook panics
    bfails: BTreeMap<u64, (u64, bool)>, // scenario -> number of attempts whose before hook panics, eagerly?
    bvisits: BTreeMap<u64, u64>,  // scenario -> before-hook calls (= attempts, when the before hook is installed)
    use_before: bool,
    steps: BTreeMap<u64, u64>,    // scenario -> number of steps per attempt
    yields: BTreeMap<u64, u64>,   // scenario -> times a released step suspends again before it returns
    after_gated: bool,            // the after hook waits for a gate of its own (key 500000 + scenario)
    classified_serial: std::collections::BTreeSet<u64>, // scenarios only the custom classifier calls Serial
    step_no: BTreeMap<u64, u64>,  // scenario -> steps entered in the current attempt
    parser_allowed: usize,
    parser_waker: Option<Waker>,
    next_wid: u64,                // World instances are numbered in the order `World::new()` creates them
    wlog: Vec<[u64; 5]>,          // [scenario, attempt, which (0 before hook, 1 step, 2 after hook), World id | 0, mutations seen]
}

thread_local! {
    static ST: RefCell<St> = RefCell::new(St::default());
}

/// Liveness beacon for the watchdog: bumped before every poll.
static BEAT: AtomicU64 = AtomicU64::new(0);
static POLLING: AtomicBool = AtomicBool::new(false);
static CASE_ID: AtomicU64 = AtomicU64::new(0);

/// Returns Pending `n` times, waking itself each time (a step that suspends after it has been released).
struct YieldN(u64);
impl Future for YieldN {
    type Output = ();
    fn poll(mut self: Pin<&mut Self>, cx: &mut Context<'_>) -> Poll<()> {
        if self.0 == 0 {
            Poll::Ready(())
        } else {
            self.0 -= 1;
            cx.waker().wake_by_ref();
            Poll::Pending
        }
    }
}

struct Gate {
    key: u64,
}
impl Future for Gate {
    type Output = ();
    fn poll(self: Pin<&mut Self>, cx: &mut Context<'_>) -> Poll<()> {
        ST.with(|s| {
            let mut s = s.borrow_mut();
            let g = s.gates.entry(self.key).or_default();
            if g.permits > 0 {
                g.permits -= 1;
                g.is_waiting = false;
                g.waiting = None;
                Poll::Ready(())
            } else {
                g.is_waiting = true;
                g.waiting = Some(cx.waker().clone());
                Poll::Pending
            }
        })
    }
}

/// The World carries an instance number and counts the callbacks that have mutated it: every callback records which instance
/// it was handed and how many mutations that instance had seen (C09 on whole concurrent runs: one World per attempt, the
/// state threads through the attempt's callbacks, no instance is ever seen by two attempts or scenarios).
#[derive(Debug)]
struct W {
    id: u64,
    count: u64,
}
impl World for W {
    type Error = std::convert::Infallible;
    async fn new() -> Result<Self, Self::Error> {
        let id = ST.with(|s| {
            let mut s = s.borrow_mut();
            s.next_wid += 1;
            s.next_wid
        });
        Ok(W { id, count: 0 })
    }
}
fn wlog(sid: u64, k: u64, which: u64, w: Option<&mut W>) {
    let (id, c) = match w {
        Some(w) => {
            let c = w.count;
            w.count += 1;
            (w.id, c)
        }
        None => (0, 0),
    };
    ST.with(|s| s.borrow_mut().wlog.push([sid, k, which, id, c]));
}

fn scen_of(text: &str) -> u64 {
    text.split(' ').nth(1).and_then(|n| n.parse().ok()).unwrap_or(0)
}

fn gated_step(w: &mut W, ctx: step::Context) -> LocalBoxFuture<'_, ()> {
    async move {
        let sid = scen_of(&ctx.step.value);
        // which attempt of the scenario is this, and which of its steps
        let (k, last, nfail, yields) = ST.with(|s| {
            let mut s = s.borrow_mut();
            let nsteps = s.steps.get(&sid).copied().unwrap_or(1);
            let no = s.step_no.entry(sid).or_insert(0);
            if *no == 0 {
                *s.visits.entry(sid).or_insert(0) += 1;
            }
            let no = s.step_no.get_mut(&sid).expect("step_no");
            *no += 1;
            let last = *no >= nsteps;
            if last {
                *no = 0;
            }
            let k = if s.use_before {
                s.bvisits.get(&sid).copied().unwrap_or(1).saturating_sub(1)
            } else {
                s.visits.get(&sid).copied().unwrap_or(1) - 1
            };
            (k, last, s.fails.get(&sid).copied().unwrap_or(0), s.yields.get(&sid).copied().unwrap_or(0))
        });
        wlog(sid, k, 1, Some(w));
        verif_trace::record("cb", sid, k * 2);
        Gate { key: sid }.await;
        // attempts released together do not complete in lock-step: some suspend a few more times
        YieldN(yields).await;
        verif_trace::record("cb", sid, k * 2 + 1);
        if last && k < nfail {
            // a failed attempt ends here: the next attempt starts with step 1 again
            std::panic::panic_any(format!("panic#{}", 1 + k));
        }
    }
    .boxed_local()
}

/// After hook: panics in the first `afails` attempts of the scenario (the steps of the attempt have run, so
/// `visits` already counts it).
fn after_hook<'a>(
    _: &'a gherkin::Feature,
    _: Option<&'a gherkin::Rule>,
    sc: &'a gherkin::Scenario,
    _: &'a cucumber::event::ScenarioFinished,
    w: Option<&'a mut W>,
) -> LocalBoxFuture<'a, ()> {
    let sid = sc.position.line as u64;
    let (k, n) = ST.with(|s| {
        let s = s.borrow();
        let k = if s.use_before {
            s.bvisits.get(&sid).copied().unwrap_or(1).saturating_sub(1)
        } else {
            s.visits.get(&sid).copied().unwrap_or(1).saturating_sub(1)
        };
        (k, s.afails.get(&sid).copied().unwrap_or(0))
    });
    wlog(sid, k, 2, w);
    let gated = ST.with(|s| s.borrow().after_gated);
    async move {
        if gated {
            // the hook takes (virtual) time: it waits for a gate of its own, clock ticks may pass meanwhile
            Gate { key: 500_000 + sid }.await;
        }
        if k < n {
            std::panic::panic_any(format!("panic#{}", 50 + k));
        }
    }
    .boxed_local()
}

/// Before hook: called once per attempt, first thing; panics in the first `bfails` attempts of the scenario.
fn before_hook<'a>(
    _: &'a gherkin::Feature,
    _: Option<&'a gherkin::Rule>,
    sc: &'a gherkin::Scenario,
    w: &'a mut W,
) -> LocalBoxFuture<'a, ()> {
    let sid = sc.position.line as u64;
    let (k, (n, eager)) = ST.with(|s| {
        let mut s = s.borrow_mut();
        let v = s.bvisits.entry(sid).or_insert(0);
        *v += 1;
        let k = *v - 1;
        // a failed before hook ends the attempt without any step: the next attempt starts with step 1
        s.step_no.insert(sid, 0);
        (k, s.bfails.get(&sid).copied().unwrap_or((0, false)))
    });
    wlog(sid, k, 0, Some(w));
    if eager && k < n {
        std::panic::panic_any(format!("panic#{}", 70 + k));
    }
    async move {
        if k < n {
            std::panic::panic_any(format!("panic#{}", 70 + k));
        }
    }
    .boxed_local()
}

static HOOK_CALLS: AtomicU64 = AtomicU64::new(0);
static HOOK_GEN: AtomicU64 = AtomicU64::new(0);

struct LazyParser {
    items: Vec<parser::Result<gherkin::Feature>>,
    delivered: usize,
}
impl Stream for LazyParser {
    type Item = parser::Result<gherkin::Feature>;
    fn poll_next(mut self: Pin<&mut Self>, cx: &mut Context<'_>) -> Poll<Option<Self::Item>> {
        let allowed = ST.with(|s| s.borrow().parser_allowed);
        if self.delivered < allowed {
            self.delivered += 1;
            if self.items.is_empty() {
                Poll::Ready(None)
            } else {
                Poll::Ready(Some(self.items.remove(0)))
            }
        } else {
            ST.with(|s| s.borrow_mut().parser_waker = Some(cx.waker().clone()));
            Poll::Pending
        }
    }
}

struct Flag(AtomicBool);
impl Wake for Flag {
    fn wake(self: Arc<Self>) {
        self.0.store(true, Ordering::SeqCst);
    }
}

struct Rng(u64);
impl Rng {
    fn next(&mut self) -> u64 {
        self.0 ^= self.0 << 13;
        self.0 ^= self.0 >> 7;
        self.0 ^= self.0 << 17;
        self.0
    }
    fn below(&mut self, n: usize) -> usize {
        (self.next() % n as u64) as usize
    }
}

fn build_feature(item: &Value) -> gherkin::Feature {
    let fid = item["id"].as_u64().unwrap_or(1) as usize;
    let ftags = if item["serial_feature"].as_bool().unwrap_or(false) { vec!["serial".to_owned()] } else { vec![] };
    let mut f = util::feature(&format!("F{fid}"), ftags);
    f.position.line = fid;
    let mut rules: Vec<gherkin::Rule> = Vec::new();
    for sc in item["scenarios"].as_array().into_iter().flatten() {
        let sid = sc["id"].as_u64().unwrap_or(0);
        let mut tags = Vec::new();
        // `serial` is the effective classification; the tag sits on the scenario itself unless `serial_own` says
        // that it is inherited from the rule or the feature
        if sc["serial_by_classifier"].as_bool().unwrap_or(false) {
            // no tag at all: only the custom classifier (by scenario id) says Serial
            ST.with(|x| x.borrow_mut().classified_serial.insert(sid));
        } else if sc["serial_own"].as_bool().unwrap_or(sc["serial"].as_bool().unwrap_or(false)) {
            tags.push("serial".to_owned());
        }
        if let Some(r) = sc["retry"].as_array() {
            let n = r[0].as_u64().unwrap_or(0);
            tags.push(match r[1].as_u64() {
                Some(ms) => format!("retry({n}).after({ms}ms)"),
                None => format!("retry({n})"),
            });
        }
        let mut s = util::scenario(&format!("S{sid}"), tags, sid as usize);
        let nsteps = sc["steps"].as_u64().unwrap_or(1);
        for i in 0..nsteps {
            s.steps.push(util::step(
                gherkin::StepType::Given,
                &format!("g {sid} {i}"),
                (sid * 100 + i + 1) as usize,
            ));
        }
        match sc["rule"].as_u64() {
            None => f.scenarios.push(s),
            Some(rid) => {
                if let Some(r) = rules.iter_mut().find(|r| r.position.line == rid as usize) {
                    r.scenarios.push(s);
                } else {
                    let rtags = if item["serial_rules"].as_array().is_some_and(|a| a.iter().any(|x| x.as_u64() == Some(rid))) {
                        vec!["serial".to_owned()]
                    } else {
                        vec![]
                    };
                    let mut r = util::rule(&format!("R{rid}"), rtags, rid as usize);
                    r.scenarios.push(s);
                    rules.push(r);
                }
            }
        }
    }
    for i in 0..item["empty_rules"].as_u64().unwrap_or(0) {
        rules.push(util::rule("empty", vec![], fid * 1000 + 900 + i as usize));
    }
    f.rules = rules;
    f
}

pub fn start_watchdog() {
    std::thread::spawn(|| {
        let mut last = (0u64, std::time::Instant::now());
        loop {
            std::thread::sleep(Duration::from_millis(250));
            let b = BEAT.load(Ordering::SeqCst);
            if b != last.0 || !POLLING.load(Ordering::SeqCst) {
                last = (b, std::time::Instant::now());
            } else if last.1.elapsed() > Duration::from_secs(6) {
                // a single poll of the event stream has not returned for 6 s
                println!(
                    "\n@@R {}",
                    json!({"id": CASE_ID.load(Ordering::SeqCst), "hang": true})
                );
                std::process::exit(3);
            }
        }
    });
}

pub fn run(case: &Value) -> Value {
    CASE_ID.store(case["id"].as_u64().unwrap_or(0), Ordering::SeqCst);
    verif_clock::reset();
    let _ = verif_trace::take();
    ST.with(|s| *s.borrow_mut() = St::default());

    let mut items: Vec<parser::Result<gherkin::Feature>> = Vec::new();
    for it in case["items"].as_array().into_iter().flatten() {
        if let Some(e) = it["error"].as_u64() {
            items.push(Err(parser::Error::ExampleExpansion(Arc::new(
                cucumber::feature::ExpandExamplesError {
                    pos: gherkin::LineCol { line: e as usize, col: 0 },
                    name: format!("e{e}"),
                    path: None,
                },
            ))));
        } else {
            for sc in it["scenarios"].as_array().into_iter().flatten() {
                let sid = sc["id"].as_u64().unwrap_or(0);
                ST.with(|s| {
                    let mut s = s.borrow_mut();
                    s.fails.insert(sid, sc["fails"].as_u64().unwrap_or(0));
                    s.afails.insert(sid, sc["afails"].as_u64().unwrap_or(0));
                    s.bfails.insert(sid, (sc["bfails"].as_u64().unwrap_or(0), sc["beager"].as_bool().unwrap_or(false)));
                    s.steps.insert(sid, sc["steps"].as_u64().unwrap_or(1));
                    s.yields.insert(sid, sc["yields"].as_u64().unwrap_or(0));
                });
            }
            items.push(Ok(build_feature(it)));
        }
    }
    ST.with(|s| s.borrow_mut().after_gated = case["after_gated"].as_bool().unwrap_or(false));
    let nitems = items.len() + 1; // + end of stream
    let eager = case["eager"].as_bool().unwrap_or(false);
    if eager {
        ST.with(|s| s.borrow_mut().parser_allowed = nitems);
    }

    let mut r = runner::Basic::<W>::default()
        .given(regex::Regex::new("^g ").expect("regex"), gated_step);
    if case["conc_builder"] != "default" {
        r = r.max_concurrent_scenarios(case["conc_builder"].as_u64().map(|n| n as usize));
    }
    if case["ff_builder"].as_bool().unwrap_or(false) {
        r = r.fail_fast();
    }
    let cli = runner::basic::Cli {
        concurrency: case["conc_cli"].as_u64().map(|n| n as usize),
        fail_fast: case["ff_cli"].as_bool().unwrap_or(false),
        ..runner::basic::Cli::default()
    };
    // counting process panic hook (C10): nothing may reach it while the run is in progress
    HOOK_CALLS.store(0, Ordering::SeqCst);
    let prev_hook = std::panic::take_hook();
    // only calls of the hook installed for THIS case count (see the attempt engine)
    let generation = HOOK_GEN.fetch_add(1, Ordering::SeqCst) + 1;
    std::panic::set_hook(Box::new(move |_| {
        if HOOK_GEN.load(Ordering::SeqCst) == generation {
            HOOK_CALLS.fetch_add(1, Ordering::SeqCst);
        }
    }));
    let parser = LazyParser { items, delivered: 0 };
    let use_before = case["before_hook"].as_bool().unwrap_or(false);
    ST.with(|s| s.borrow_mut().use_before = use_before);
    // `custom_which`: a user classifier (same classification as the default one: `@serial` on the scenario, its rule or
    // its feature) installed LAST in the builder chain — every builder method must carry the other settings over
    fn classify(f: &gherkin::Feature, r: Option<&gherkin::Rule>, s: &gherkin::Scenario) -> runner::basic::ScenarioType {
        let serial = s.tags.iter().chain(r.iter().flat_map(|r| &r.tags)).chain(&f.tags).any(|t| t == "serial")
            || ST.with(|x| x.borrow().classified_serial.contains(&(s.position.line as u64)));
        if serial { runner::basic::ScenarioType::Serial } else { runner::basic::ScenarioType::Concurrent }
    }
    let custom_which = case["custom_which"].as_bool().unwrap_or(false);
    let mut evs = match (use_before, case["after_hook"].as_bool().unwrap_or(false), custom_which) {
        (true, true, false) => r.before(before_hook).after(after_hook).run(parser, cli).boxed_local(),
        (true, false, false) => r.before(before_hook).run(parser, cli).boxed_local(),
        (false, true, false) => r.after(after_hook).run(parser, cli).boxed_local(),
        (false, false, false) => r.run(parser, cli).boxed_local(),
        (true, true, true) => r.before(before_hook).after(after_hook).which_scenario(classify).run(parser, cli).boxed_local(),
        (true, false, true) => r.before(before_hook).which_scenario(classify).run(parser, cli).boxed_local(),
        (false, true, true) => r.after(after_hook).which_scenario(classify).run(parser, cli).boxed_local(),
        (false, false, true) => r.which_scenario(classify).run(parser, cli).boxed_local(),
    };

    let flag = Arc::new(Flag(AtomicBool::new(true)));
    let waker = Waker::from(Arc::clone(&flag));
    let mut cx = Context::from_waker(&waker);
    let mut done = false;
    let mut received: Vec<Value> = Vec::new();

    let mut pump = |evs: &mut futures::stream::LocalBoxStream<'_, parser::Result<cucumber::Event<cucumber::event::Cucumber<W>>>>,
                    done: &mut bool,
                    received: &mut Vec<Value>| {
        let mut idle = 0;
        while !*done && flag.0.swap(false, Ordering::SeqCst) {
            BEAT.fetch_add(1, Ordering::SeqCst);
            POLLING.store(true, Ordering::SeqCst);
            let p = evs.poll_next_unpin(&mut cx);
            POLLING.store(false, Ordering::SeqCst);
            match p {
                Poll::Ready(Some(e)) => {
                    received.push(events::ev_json(&e)["ev"].clone());
                    flag.0.store(true, Ordering::SeqCst);
                    idle = 0;
                }
                Poll::Ready(None) => {
                    verif_trace::record("end", 0, 0);
                    *done = true;
                }
                Poll::Pending => {
                    idle += 1;
                    if idle >= 8 {
                        verif_trace::record("stutter", 0, 0);
                        break;
                    }
                }
            }
        }
    };

    let mut rng = Rng(case["seed"].as_u64().unwrap_or(1).wrapping_mul(0x9E37_79B9_7F4A_7C15) | 1);
    let p_parser = case["p_parser"].as_u64().unwrap_or(30) as usize;
    let p_tick = case["p_tick"].as_u64().unwrap_or(10) as usize;
    pump(&mut evs, &mut done, &mut received);
    let mut delivered = if eager { nitems } else { 0 };
    let mut rounds = 0;
    let max_rounds = case["max_rounds"].as_u64().unwrap_or(400);
    let p_multi = case["p_multi"].as_u64().unwrap_or(0) as usize;
    // `real_wait`: now and then the harness lets REAL time pass while the runner is quiescent. The hooked runner keeps
    // no real-time timer (its sleeps are virtual-clock advances), so nothing may happen; a timer thread that fires
    // wakes the stream and whatever it does shows in the history.
    let mut real_waits = if case["real_wait"].as_bool().unwrap_or(false) { 3 } else { 0 };
    while !done && rounds < 4000 {
        rounds += 1;
        if real_waits > 0 && rounds > 2 && rng.below(100) < 25 {
            real_waits -= 1;
            std::thread::sleep(Duration::from_millis(45));
            pump(&mut evs, &mut done, &mut received);
            if done {
                break;
            }
        }
        // several stimuli may be applied before the stream is polled again, so that more than one
        // attempt can complete within the same poll
        let burst = if rng.below(100) < p_multi { 2 + rng.below(2) } else { 1 };
        for _ in 0..burst {
        let waiting: Vec<u64> = ST.with(|s| {
            s.borrow().gates.iter().filter(|(_, g)| g.is_waiting && g.permits == 0).map(|(k, _)| *k).collect()
        });
        let release_all = rounds > max_rounds;
        // choose among the enabled stimuli
        let roll = rng.below(100);
        let choice: (u8, u64) = if delivered < nitems && (release_all || roll < p_parser || waiting.is_empty() && roll >= 100 - p_parser) {
            (b'P', 0)
        } else if !release_all && roll >= 100 - p_tick {
            (b'T', [1u64, 5, 40][rng.below(3)])
        } else if !waiting.is_empty() {
            (b'G', waiting[rng.below(waiting.len())])
        } else if delivered < nitems {
            (b'P', 0)
        } else {
            (b'T', 40)
        };
        match choice {
            (b'P', _) => {
                delivered += 1;
                verif_trace::record("stimP", 0, 0);
                ST.with(|s| {
                    let mut s = s.borrow_mut();
                    s.parser_allowed += 1;
                    if let Some(w) = s.parser_waker.take() {
                        w.wake();
                    }
                });
            }
            (b'T', ms) => {
                verif_trace::record("stimT", ms * 1_000_000, 0);
                verif_clock::advance(Duration::from_millis(ms));
            }
            (_, key) => {
                verif_trace::record("stimG", key, 0);
                ST.with(|s| {
                    let mut s = s.borrow_mut();
                    let g = s.gates.entry(key).or_default();
                    g.permits += 1;
                    if let Some(w) = g.waiting.take() {
                        w.wake();
                    }
                });
            }
        }
        }
        flag.0.store(true, Ordering::SeqCst);
        pump(&mut evs, &mut done, &mut received);
    }

    drop(evs);
    let during = HOOK_CALLS.load(Ordering::SeqCst);
    // is the hook installed before the run back in place?
    let _ = std::thread::spawn(|| {
        let _ = std::panic::catch_unwind(|| std::panic::panic_any(0u8));
    })
    .join();
    let after_marker = HOOK_CALLS.load(Ordering::SeqCst);
    std::panic::set_hook(prev_hook);

    // one ordered history: the k-th "ev" record is the k-th event of the stream
    let trace = verif_trace::take();
    let mut history = Vec::new();
    let mut next_ev = 0;
    let mut ev_missing = 0u64;
    for (kind, a, b, t) in trace {
        match kind {
            "ev" => {
                // a send point that was reached without an event arriving in the stream (an event announced but not
                // sent) leaves no record: what is missing shows in the counts the monitors check
                if let Some(e) = received.get(next_ev).cloned() {
                    history.push(json!(["ev", e, t]));
                } else {
                    ev_missing += 1;
                }
                next_ev += 1;
            }
            "top" => history.push(json!(["top", a, t])),
            "feat" => history.push(json!(["feat", t])),
            "cb" => history.push(json!(["cb", b % 2, a, b / 2, t])),
            "stimP" => history.push(json!(["stim", "P", 0, t])),
            "stimT" => history.push(json!(["stim", "T", a, t])),
            "stimG" => history.push(json!(["stim", "G", a, t])),
            "stutter" => history.push(json!(["stutter", t])),
            "end" => history.push(json!(["end", t])),
            other => history.push(json!([other, a, b, t])),
        }
    }
    json!({
        "history": history,
        "events": received.len(),
        "events_traced": next_ev,
        "events_missing": ev_missing,
        "terminated": done,
        "rounds": rounds,
        "hook_calls_during_run": during,
        "hook_restored": !done || after_marker == during + 1,
        "worlds": ST.with(|s| s.borrow().wlog.iter().map(|r| r.to_vec()).collect::<Vec<_>>()),
    })
}
