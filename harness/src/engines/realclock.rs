//! Engine `realclock` (C05 delay clause and C04 "lets the other side make progress" on the REAL clock): the real
//! `runner::Basic` with the hook's clock switched to real time, so that the production path — a helper thread that
//! sleeps for the smallest retry deadline while the executor task is parked — is the one that runs.
//!
//! Case: {"delay_ms": D, "concurrency": null|k,
//!        "scenarios": [{"id": s, "retry": null|n, "delayed": bool, "fails": k}],     (feature 1, delivered at once)
//!        "late": [{"id": s, ...}]}                                                  (feature 2: the parser returns
//!                                    Pending for it until the stream has returned Pending once)
//! The stream is polled by hand with a thread-parking waker. Observed: every event with the real time (ms since the
//! start) at which the poll that produced it returned, the longest single poll, when the late feature was made
//! available and when the runner reported ParsingFinished, whether the run ended.

use std::{
    cell::RefCell,
    collections::BTreeMap,
    pin::Pin,
    sync::{
        Arc,
        atomic::{AtomicBool, Ordering},
    },
    task::{Context, Poll, Wake, Waker},
    time::{Duration, Instant},
};

use cucumber::{
    Runner as _, World, parser,
    runner::{self, basic::verif_clock},
    step,
};
use futures::{FutureExt as _, Stream, StreamExt as _, future::LocalBoxFuture};
use serde_json::{Value, json};

use crate::{events, util};

#[derive(Debug)]
struct W;
impl World for W {
    type Error = std::convert::Infallible;
    async fn new() -> Result<Self, Self::Error> {
        Ok(W)
    }
}

#[derive(Default)]
struct St {
    fails: BTreeMap<u64, u64>,
    visits: BTreeMap<u64, u64>,
    late_ready: bool,
    parser_waker: Option<Waker>,
}
thread_local! {
    static ST: RefCell<St> = RefCell::new(St::default());
}

fn plain_step(_: &mut W, ctx: step::Context) -> LocalBoxFuture<'_, ()> {
    async move {
        let sid: u64 = ctx.step.value.split(' ').nth(1).and_then(|n| n.parse().ok()).unwrap_or(0);
        let (k, nfail) = ST.with(|s| {
            let mut s = s.borrow_mut();
            let v = s.visits.entry(sid).or_insert(0);
            *v += 1;
            (*v - 1, s.fails.get(&sid).copied().unwrap_or(0))
        });
        if k < nfail {
            std::panic::panic_any(format!("panic#{}", 1 + k));
        }
    }
    .boxed_local()
}

/// Feature 1 at once; feature 2 only after `late_ready`.
struct Lazy {
    first: Option<gherkin::Feature>,
    late: Option<gherkin::Feature>,
}
impl Stream for Lazy {
    type Item = parser::Result<gherkin::Feature>;
    fn poll_next(mut self: Pin<&mut Self>, cx: &mut Context<'_>) -> Poll<Option<Self::Item>> {
        if let Some(f) = self.first.take() {
            return Poll::Ready(Some(Ok(f)));
        }
        if self.late.is_none() {
            return Poll::Ready(None);
        }
        if ST.with(|s| s.borrow().late_ready) {
            Poll::Ready(self.late.take().map(Ok))
        } else {
            ST.with(|s| s.borrow_mut().parser_waker = Some(cx.waker().clone()));
            Poll::Pending
        }
    }
}

struct Parker {
    woken: AtomicBool,
    thread: std::thread::Thread,
}
impl Wake for Parker {
    fn wake(self: Arc<Self>) {
        self.woken.store(true, Ordering::SeqCst);
        self.thread.unpark();
    }
}

fn feature_of(fid: usize, scs: &[Value], delay_ms: u64) -> gherkin::Feature {
    let mut f = util::feature(&format!("F{fid}"), vec![]);
    f.position.line = fid;
    for sc in scs {
        let sid = sc["id"].as_u64().unwrap_or(0);
        let tags = match sc["retry"].as_u64() {
            Some(n) if sc["delayed"].as_bool().unwrap_or(false) => vec![format!("retry({n}).after({delay_ms}ms)")],
            Some(n) => vec![format!("retry({n})")],
            None => vec![],
        };
        let mut s = util::scenario(&format!("S{sid}"), tags, sid as usize);
        s.steps.push(util::step(gherkin::StepType::Given, &format!("p {sid}"), (sid * 100 + 1) as usize));
        ST.with(|x| x.borrow_mut().fails.insert(sid, sc["fails"].as_u64().unwrap_or(0)));
        f.scenarios.push(s);
    }
    f
}

static HOOK_CALLS: std::sync::atomic::AtomicU64 = std::sync::atomic::AtomicU64::new(0);
static HOOK_GEN: std::sync::atomic::AtomicU64 = std::sync::atomic::AtomicU64::new(0);

fn one_run(case: &Value) -> Value {
    ST.with(|s| *s.borrow_mut() = St::default());
    // C10 on the real clock: a counting process panic hook (only calls of this run's generation count) is in place before the
    // run; nothing may reach it while the run is in progress — also across the REAL waits for retry deadlines — and it must be
    // back afterwards
    HOOK_CALLS.store(0, Ordering::SeqCst);
    let outer_hook = std::panic::take_hook();
    let generation = HOOK_GEN.fetch_add(1, Ordering::SeqCst) + 1;
    std::panic::set_hook(Box::new(move |_| {
        if HOOK_GEN.load(Ordering::SeqCst) == generation {
            HOOK_CALLS.fetch_add(1, Ordering::SeqCst);
        }
    }));
    let delay_ms = case["delay_ms"].as_u64().unwrap_or(300);
    let first = feature_of(1, case["scenarios"].as_array().map_or(&[][..], Vec::as_slice), delay_ms);
    let late_scs = case["late"].as_array().cloned().unwrap_or_default();
    let late = (!late_scs.is_empty()).then(|| feature_of(2, &late_scs, delay_ms));
    let has_late = late.is_some();
    let wants_wait = case["scenarios"].as_array().into_iter().flatten().any(|sc| {
        sc["delayed"].as_bool().unwrap_or(false) && sc["retry"].as_u64().unwrap_or(0) > 0 && sc["fails"].as_u64().unwrap_or(0) > 0
    });

    verif_clock::set_real(true);
    let r = runner::Basic::<W>::default()
        .max_concurrent_scenarios(case["concurrency"].as_u64().map(|n| n as usize))
        .given(regex::Regex::new("^p ").expect("regex"), plain_step);
    let mut evs = r.run(Lazy { first: Some(first), late }, runner::basic::Cli::default()).boxed_local();

    let parker = Arc::new(Parker { woken: AtomicBool::new(true), thread: std::thread::current() });
    let waker = Waker::from(parker.clone());
    let mut cx = Context::from_waker(&waker);
    let t0 = Instant::now();
    let ms = |t: Instant| t.duration_since(t0).as_secs_f64() * 1000.0;
    let mut out: Vec<Value> = Vec::new();
    let mut max_poll = 0.0f64;
    let mut late_at: Option<f64> = None;
    let mut pf_at: Option<f64> = None;
    let mut done = false;
    let deadline = t0 + Duration::from_secs(20);
    while !done && Instant::now() < deadline {
        if !parker.woken.swap(false, Ordering::SeqCst) {
            std::thread::park_timeout(Duration::from_millis(50));
            continue;
        }
        loop {
            let a = Instant::now();
            let p = evs.poll_next_unpin(&mut cx);
            let b = Instant::now();
            max_poll = max_poll.max(b.duration_since(a).as_secs_f64() * 1000.0);
            match p {
                Poll::Ready(Some(e)) => {
                    let j = events::ev_json(&e)["ev"].clone();
                    if j[0] == "ParsingFinished" {
                        pf_at = Some(ms(b));
                    }
                    out.push(json!([j, ms(b)]));
                }
                Poll::Ready(None) => {
                    done = true;
                    break;
                }
                Poll::Pending => {
                    // the stream has returned Pending while a failed attempt waits for its retry delay (or, if no
                    // scenario is retried with a delay, at the first Pending): now the late feature becomes available
                    let waiting = !wants_wait || out.iter().any(|e| {
                        e[0][0] == "Scen" && e[0][5][0] == "Finished" && e[0][4][1].as_u64().is_some_and(|l| l > 0)
                    });
                    if has_late && late_at.is_none() && waiting {
                        late_at = Some(ms(b));
                        ST.with(|s| {
                            let mut s = s.borrow_mut();
                            s.late_ready = true;
                            if let Some(w) = s.parser_waker.take() {
                                w.wake();
                            }
                        });
                    }
                    break;
                }
            }
        }
    }
    drop(evs);
    verif_clock::set_real(false);
    let during = HOOK_CALLS.load(Ordering::SeqCst);
    let _ = std::thread::spawn(|| {
        let _ = std::panic::catch_unwind(|| std::panic::panic_any(0u8));
    })
    .join();
    let after_marker = HOOK_CALLS.load(Ordering::SeqCst);
    std::panic::set_hook(outer_hook);
    json!({"hook_calls_during_run": during, "hook_restored": !done || after_marker == during + 1, "events": out, "max_poll_ms": max_poll, "late_at_ms": late_at, "parsing_finished_ms": pf_at,
           "terminated": done, "delay_ms": delay_ms})
}

pub fn run(case: &Value) -> Value {
    let prev = std::panic::take_hook();
    std::panic::set_hook(Box::new(|_| {}));
    // timing observations are taken up to three times and the most favourable one is reported: a stall of the
    // machine must not look like a stall of the runner
    let mut best: Option<Value> = None;
    for _ in 0..3 {
        let r = one_run(case);
        let better = best.as_ref().is_none_or(|b| {
            r["max_poll_ms"].as_f64().unwrap_or(1e9) < b["max_poll_ms"].as_f64().unwrap_or(1e9)
        });
        let fine = r["max_poll_ms"].as_f64().unwrap_or(1e9) < 50.0 && r["terminated"] == true;
        if better {
            best = Some(r);
        }
        if fine {
            break;
        }
    }
    std::panic::set_hook(prev);
    best.unwrap_or(Value::Null)
}
