//! Engine `retryopts` (C18): `RetryOptions::parse_from_tags` called directly,
//! plus the CLI/builder merge observed end-to-end through `Basic::run`.

use std::{cell::RefCell, rc::Rc, time::Duration};

use cucumber::{
    Runner as _, World,
    runner::{self, basic::RetryOptions},
};
use futures::{StreamExt as _, executor::block_on, stream};
use serde_json::{Value, json};

use crate::util;

#[derive(Debug, Default)]
struct W;
impl World for W {
    type Error = std::convert::Infallible;
    async fn new() -> Result<Self, Self::Error> {
        Ok(W)
    }
}

fn cli_of(v: &Value) -> runner::basic::Cli {
    runner::basic::Cli {
        concurrency: v["concurrency"].as_u64().map(|n| n as usize),
        fail_fast: v["fail_fast"].as_bool().unwrap_or(false),
        retry: v["retry"].as_u64().map(|n| n as usize),
        retry_after: v["retry_after"].as_u64().map(Duration::from_nanos),
        retry_tag_filter: util::tagop(&v["filter"]),
    }
}

fn opts_json(o: Option<RetryOptions>) -> Value {
    match o {
        None => Value::Null,
        Some(o) => json!({
            "current": o.retries.current,
            "left": o.retries.left,
            "after": o.after.map(|d| d.as_nanos() as u64),
        }),
    }
}

/// Every substring between a '(' and a later ')' of every tag, with what
/// `humantime::parse_duration` says about it (the oracle table of the model).
fn dur_table(tags: &[String]) -> Value {
    let mut seen = std::collections::BTreeMap::new();
    for t in tags {
        let cs: Vec<(usize, char)> = t.char_indices().collect();
        for (i, (bi, c)) in cs.iter().enumerate() {
            if *c != '(' {
                continue;
            }
            for (bj, d) in cs.iter().skip(i + 1) {
                if *d == ')' {
                    let sub = &t[bi + 1..*bj];
                    let r = humantime::parse_duration(sub)
                        .ok()
                        .and_then(|d| u64::try_from(d.as_nanos()).ok());
                    seen.insert(sub.to_owned(), r);
                }
            }
        }
    }
    Value::Array(seen.into_iter().map(|(k, v)| json!([k, v])).collect())
}

pub fn run(case: &Value) -> Value {
    let ftags = util::strs(&case["ftags"]);
    let rtags = if case["rtags"].is_null() {
        None
    } else {
        Some(util::strs(&case["rtags"]))
    };
    let stags = util::strs(&case["stags"]);
    let cli = cli_of(&case["cli"]);

    let mut all = ftags.clone();
    all.extend(rtags.clone().unwrap_or_default());
    all.extend(stags.clone());
    let table = dur_table(&all);

    let feature = util::feature("F", ftags);
    let rule = rtags.map(|t| util::rule("R", t, 2));
    let scenario = util::scenario("S", stags, 3);

    // (1) direct call with the CLI as given
    let direct =
        RetryOptions::parse_from_tags(&feature, rule.as_ref(), &scenario, &cli);

    // (2) end to end: builder values + CLI through `Basic::run`; the custom
    // `retry_options` closure sees the MERGED cli (basic.rs:762-766).
    let b = &case["builder"];
    let seen = Rc::new(RefCell::new(Vec::<Value>::new()));
    let seen2 = Rc::clone(&seen);
    let mut r = runner::Basic::<W>::default()
        .max_concurrent_scenarios(b["concurrency"].as_u64().map(|n| n as usize))
        .retries(b["retries"].as_u64().map(|n| n as usize))
        .retry_after(b["retry_after"].as_u64().map(Duration::from_nanos))
        .retry_filter(util::tagop(&b["filter"]))
        .retry_options(move |f, r, s, cli| {
            let res = RetryOptions::parse_from_tags(f, r, s, cli);
            seen2.borrow_mut().push(json!({
                "retry": cli.retry,
                "retry_after": cli.retry_after.map(|d| d.as_nanos() as u64),
                "filter": cli.retry_tag_filter.as_ref().map(util::tagop_json),
                "result": opts_json(res),
            }));
            res
        });
    if b["fail_fast"].as_bool().unwrap_or(false) {
        r = r.fail_fast();
    }
    let mut f2 = feature.clone();
    let mut first_started = Value::Null;
    if let Some(mut rule) = rule.clone() {
        rule.scenarios.push(scenario.clone());
        f2.rules.push(rule);
    } else {
        f2.scenarios.push(scenario.clone());
    }
    let events: Vec<_> =
        block_on(r.run(stream::iter(vec![Ok(f2)]), cli.clone()).collect());
    for ev in &events {
        if let Ok(ev) = ev {
            use cucumber::event::{Cucumber, Feature, Rule, Scenario};
            if let Cucumber::Feature(_, fe) = &**ev {
                let sc = match fe {
                    Feature::Scenario(_, e) => Some(e),
                    Feature::Rule(_, Rule::Scenario(_, e)) => Some(e),
                    _ => None,
                };
                if let Some(e) = sc {
                    if matches!(e.event, Scenario::Started)
                        && first_started.is_null()
                    {
                        first_started = json!({
                            "retries": e.retries.map(|r| json!([r.current, r.left])),
                        });
                    }
                }
            }
        }
    }
    let merged = seen.borrow().first().cloned().unwrap_or(Value::Null);

    json!({
        "direct": opts_json(direct),
        "dur_table": table,
        "merged": merged,
        "first_started": first_started,
        "n_events": events.len(),
    })
}
