//! Engine `outline` (C16): `feature::Ext::expand_examples` on hand-built or
//! parsed features.

use cucumber::feature::Ext as _;
use serde_json::{Value, json};

use crate::util::strs;

fn lc(v: &Value) -> gherkin::LineCol {
    gherkin::LineCol {
        line: v["line"].as_u64().unwrap_or(0) as usize,
        col: v["col"].as_u64().unwrap_or(0) as usize,
    }
}

fn span() -> gherkin::Span {
    gherkin::Span { start: 0, end: 0 }
}

fn table_of(v: &Value) -> Option<gherkin::Table> {
    if v.is_null() {
        return None;
    }
    Some(gherkin::Table {
        rows: v.as_array().map(|r| r.iter().map(strs).collect()).unwrap_or_default(),
        span: span(),
        position: gherkin::LineCol { line: 0, col: 0 },
    })
}

fn table_json(t: Option<&gherkin::Table>) -> Value {
    t.map_or(Value::Null, |t| json!(t.rows))
}

fn oscen_of(v: &Value) -> gherkin::Scenario {
    gherkin::Scenario {
        keyword: "Scenario Outline".into(),
        name: v["name"].as_str().unwrap_or_default().into(),
        description: None,
        steps: v["steps"]
            .as_array()
            .map(|a| {
                a.iter()
                    .map(|s| gherkin::Step {
                        keyword: "Given ".into(),
                        ty: gherkin::StepType::Given,
                        value: s["value"].as_str().unwrap_or_default().into(),
                        docstring: s["doc"].as_str().map(Into::into),
                        table: table_of(&s["table"]),
                        span: span(),
                        position: lc(s),
                    })
                    .collect()
            })
            .unwrap_or_default(),
        examples: v["examples"]
            .as_array()
            .map(|a| {
                a.iter()
                    .map(|e| gherkin::Examples {
                        keyword: "Examples".into(),
                        name: None,
                        description: None,
                        table: table_of(&e["table"]),
                        tags: strs(&e["tags"]),
                        span: span(),
                        position: lc(e),
                    })
                    .collect()
            })
            .unwrap_or_default(),
        tags: strs(&v["tags"]),
        span: span(),
        position: lc(v),
    }
}

fn oscen_json(s: &gherkin::Scenario) -> Value {
    json!({
        "name": s.name,
        "tags": s.tags,
        "line": s.position.line,
        "col": s.position.col,
        "steps": s.steps.iter().map(|st| json!({
            "value": st.value,
            "doc": st.docstring,
            "table": table_json(st.table.as_ref()),
            "line": st.position.line,
            "col": st.position.col,
        })).collect::<Vec<_>>(),
        "examples": s.examples.iter().map(|e| json!({
            "line": e.position.line,
            "col": e.position.col,
            "tags": e.tags,
            "table": table_json(e.table.as_ref()),
        })).collect::<Vec<_>>(),
    })
}

fn feature_json(f: &gherkin::Feature) -> Value {
    json!({
        "rules": f.rules.iter()
            .map(|r| r.scenarios.iter().map(oscen_json).collect::<Vec<_>>())
            .collect::<Vec<_>>(),
        "top": f.scenarios.iter().map(oscen_json).collect::<Vec<_>>(),
        "name": f.name,
        "tags": f.tags,
        "n_rules": f.rules.len(),
        "bg": f.background.as_ref().map(|b| b.steps.len()),
    })
}

pub fn run(case: &Value) -> Value {
    let feature = if let Some(src) = case["text"].as_str() {
        match gherkin::Feature::parse(src, gherkin::GherkinEnv::default()) {
            Ok(f) => f,
            Err(e) => return json!({"parse_error": e.to_string()}),
        }
    } else {
        let mut f = crate::util::feature("F", vec![]);
        f.scenarios = case["top"]
            .as_array()
            .map(|a| a.iter().map(oscen_of).collect())
            .unwrap_or_default();
        f.rules = case["rules"]
            .as_array()
            .map(|rs| {
                rs.iter()
                    .enumerate()
                    .map(|(i, r)| {
                        let mut rule = crate::util::rule("R", vec![], 1000 + i);
                        rule.scenarios = r
                            .as_array()
                            .map(|a| a.iter().map(oscen_of).collect())
                            .unwrap_or_default();
                        rule
                    })
                    .collect()
            })
            .unwrap_or_default();
        f
    };
    let parsed = feature_json(&feature);
    let expanded = match feature.expand_examples() {
        Ok(f) => json!({"ok": feature_json(&f)}),
        Err(e) => json!({
            "err": {"line": e.pos.line, "col": e.pos.col, "name": e.name},
            "display": e.to_string(),
        }),
    };
    json!({"parsed": parsed, "expanded": expanded})
}
