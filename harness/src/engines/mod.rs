pub mod filter;
pub mod retryopts;
