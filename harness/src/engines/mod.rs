pub mod attempt;
pub mod combinators;
pub mod filter;
pub mod outline;
pub mod retryopts;
pub mod stepmatch;
pub mod sched;
pub mod reporters;
