pub mod filter;
pub mod retryopts;
pub mod stepmatch;
