pub mod retryopts;
