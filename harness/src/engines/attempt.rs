//! Engine `attempt` (C02, C05, C09, C10): one scenario, all its attempts,
//! through the REAL `runner::Basic` with scripted outcomes.
//!
//! Case JSON:
//!   {"fbg":[{"id":n,"m":"none"|"amb"|"match"}], "rbg": null|[..], "steps":[..],
//!    "before":bool, "after":bool, "retry": null|N, "concurrency": null|k,
//!    "attempts":[{"world":"ok"|["err",e]|["panic",p], "before":null|p, "after":null|p,
//!                 "panics":{"<step id>":p}}]}
//! Panic payload p: p%3==0 -> String, p%3==1 -> &'static str, p%3==2 -> u32 (C10);
//! (p/3)%2==0 -> the callback panics EAGERLY (in its synchronous part, before it returns its
//! future), otherwise inside the future.
//! Which attempt a callback belongs to: `World::new` is called either in every
//! attempt of a scenario or in none (hook presence and match status are static),
//! so the number of `World::new` calls so far identifies the attempt for the
//! before hook and for steps; the after hook is called exactly once per attempt.

use std::{
    cell::RefCell,
    panic,
    sync::atomic::{AtomicUsize, Ordering},
};

use cucumber::{Runner as _, World, event, runner, step};
use futures::{FutureExt as _, StreamExt as _, executor::block_on, stream};
use serde_json::{Value, json};

use crate::{events, util};

#[derive(Debug)]
pub struct AW {
    id: u64,
    log: Vec<u64>,
}

#[derive(Default)]
struct State {
    attempts: Vec<Value>,
    world_new_calls: usize,
    after_calls: usize,
    next_wid: u64,
    calls: Vec<Value>,
}

thread_local! {
    static ST: RefCell<State> = RefCell::new(State::default());
}

static HOOK_CALLS: AtomicUsize = AtomicUsize::new(0);
static HOOK_GEN: AtomicUsize = AtomicUsize::new(0);

/// `helper_thread`: user code panics on a HELPER thread and the payload is re-raised on the runner's thread (what
/// `thread::spawn(..).join()` + `resume_unwind`, `spawn_blocking` or `thread::scope` do): the process panic hook is invoked on
/// that other thread, and must stay silent there too while the run is in progress.
static HELPER: std::sync::atomic::AtomicBool = std::sync::atomic::AtomicBool::new(false);

fn do_panic(p: u64) -> ! {
    if HELPER.load(Ordering::SeqCst) {
        let r = std::thread::Builder::new()
            .name("step-helper".into())
            .spawn(move || raise(p))
            .expect("helper thread")
            .join();
        match r {
            Err(e) => panic::resume_unwind(e),
            Ok(never) => never,
        }
    }
    raise(p)
}

fn raise(p: u64) -> ! {
    match p % 3 {
        0 => panic::panic_any(format!("panic#{p}")),
        1 => {
            let s: &'static str = Box::leak(format!("panic#{p}").into_boxed_str());
            panic::panic_any(s)
        }
        _ => panic::panic_any(p as u32),
    }
}

impl World for AW {
    type Error = String;
    async fn new() -> Result<Self, String> {
        let (k, outcome, wid) = ST.with(|s| {
            let mut s = s.borrow_mut();
            let k = s.world_new_calls;
            s.world_new_calls += 1;
            s.next_wid += 1;
            let wid = s.next_wid;
            let o = s.attempts.get(k).map_or(Value::Null, |a| a["world"].clone());
            s.calls.push(json!({"k": k, "cb": "new"}));
            (k, o, wid)
        });
        let _ = k;
        match &outcome {
            Value::Array(a) if a[0] == "err" => {
                Err(format!("werr#{}", a[1].as_u64().unwrap_or(0)))
            }
            Value::Array(a) => do_panic_world(a[1].as_u64().unwrap_or(0)),
            _ => Ok(AW { id: wid, log: vec![] }),
        }
    }
}

fn do_panic_world(p: u64) -> ! {
    panic::panic_any(format!("panic#{}", 1000 + p))
}

fn cur_attempt() -> usize {
    ST.with(|s| s.borrow().world_new_calls.saturating_sub(1))
}

fn eager(p: u64) -> bool {
    (p / 3) % 2 == 0
}

fn step_cb<'a>(
    w: &'a mut AW,
    ctx: step::Context,
) -> futures::future::LocalBoxFuture<'a, ()> {
    // synchronous part: runs when the runner CALLS the step function
    let id = ctx.step.position.line as u64;
    let k = cur_attempt();
    let pan = ST.with(|s| {
        let mut s = s.borrow_mut();
        s.calls.push(json!({"k": k, "cb": "step", "st": id, "wid": w.id, "log": w.log}));
        s.attempts.get(k).and_then(|a| a["panics"][id.to_string()].as_u64())
    });
    w.log.push(id);
    if let Some(p) = pan {
        if eager(p) {
            do_panic(p);
        }
    }
    async move {
        futures::future::ready(()).await;
        if let Some(p) = pan {
            do_panic(p);
        }
    }
    .boxed_local()
}

fn reason_json(r: &event::ScenarioFinished) -> Value {
    match r {
        event::ScenarioFinished::BeforeHookFailed(i) => {
            json!(["BeforeHookFailed", events::payload_id(i)])
        }
        event::ScenarioFinished::StepPassed => json!(["StepPassed"]),
        event::ScenarioFinished::StepSkipped => json!(["StepSkipped"]),
        event::ScenarioFinished::StepFailed(_, _, e) => json!([
            "StepFailed",
            match e {
                event::StepError::NotFound => json!("NotFound"),
                event::StepError::AmbiguousMatch(_) => json!("Ambiguous"),
                event::StepError::Panic(i) => json!(["Panic", events::payload_id(i)]),
            }
        ]),
    }
}

fn collect<R: cucumber::Runner<AW>>(r: R, f: gherkin::Feature, cli: R::Cli) -> Vec<Value> {
    block_on(r.run(stream::iter(vec![Ok(f)]), cli).collect::<Vec<_>>())
        .iter()
        .map(|e| events::ev_json(e)["ev"].clone())
        .collect()
}

pub fn run(case: &Value) -> Value {
    // scripted payloads have a kind (String / &'static str / u32) that must survive the trip into the events
    events::STRICT_KINDS.with(|k| k.set(true));
    HELPER.store(case["helper_thread"].as_bool().unwrap_or(false), Ordering::SeqCst);
    ST.with(|s| {
        *s.borrow_mut() = State {
            attempts: case["attempts"].as_array().cloned().unwrap_or_default(),
            ..State::default()
        }
    });

    // feature
    let mk_steps = |v: &Value| -> Vec<gherkin::Step> {
        v.as_array()
            .into_iter()
            .flatten()
            .map(|s| {
                let id = s["id"].as_u64().unwrap_or(0);
                util::step(gherkin::StepType::Given, &format!("step {id} end"), id as usize)
            })
            .collect()
    };
    let bg = |steps: Vec<gherkin::Step>| {
        (!steps.is_empty()).then(|| gherkin::Background {
            keyword: "Background".into(),
            name: String::new(),
            description: None,
            steps,
            span: gherkin::Span { start: 0, end: 0 },
            position: gherkin::LineCol { line: 0, col: 1 },
        })
    };
    let mut feature = util::feature("F", vec![]);
    feature.position.line = 1;
    feature.background = bg(mk_steps(&case["fbg"]));
    let tags = case["retry"].as_u64().map(|n| vec![format!("retry({n})")]).unwrap_or_default();
    let mut sc = util::scenario("S", tags, 3);
    sc.steps = mk_steps(&case["steps"]);
    if case["rbg"].is_null() {
        feature.scenarios.push(sc);
    } else {
        let mut rule = util::rule("R", vec![], 2);
        rule.background = bg(mk_steps(&case["rbg"]));
        rule.scenarios.push(sc);
        feature.rules.push(rule);
    }

    // step definitions
    let mut coll = step::Collection::<AW>::new();
    for key in ["fbg", "rbg", "steps"] {
        for s in case[key].as_array().into_iter().flatten() {
            let id = s["id"].as_u64().unwrap_or(0);
            let m = s["m"].as_str().unwrap_or("none");
            if m == "match" || m == "amb" {
                let re = regex::Regex::new(&format!("^step {id} end$")).expect("regex");
                coll = coll.given(None, re, step_cb);
            }
            if m == "amb" {
                let re = regex::Regex::new(&format!("^step {id} e(nd)$")).expect("regex");
                coll = coll.given(None, re, step_cb);
            }
        }
    }

    let base = runner::Basic::<AW>::default()
        .steps(coll)
        .max_concurrent_scenarios(case["concurrency"].as_u64().map(|n| n as usize));
    let cli = runner::basic::Cli::default();

    // counting process panic hook (C10)
    HOOK_CALLS.store(0, Ordering::SeqCst);
    let prev = panic::take_hook();
    // the hook installed for THIS case is told apart from the hooks of earlier cases of the same process: only a call of
    // the current generation counts (a runner that puts back a hook it remembered from an earlier run is noticed)
    let generation = HOOK_GEN.fetch_add(1, Ordering::SeqCst) + 1;
    panic::set_hook(Box::new(move |_| {
        if HOOK_GEN.load(Ordering::SeqCst) == generation {
            HOOK_CALLS.fetch_add(1, Ordering::SeqCst);
        }
    }));

    fn before<'a>(
        _: &'a gherkin::Feature,
        _: Option<&'a gherkin::Rule>,
        _: &'a gherkin::Scenario,
        w: &'a mut AW,
    ) -> futures::future::LocalBoxFuture<'a, ()> {
        let k = cur_attempt();
        let pan = ST.with(|s| {
            let mut s = s.borrow_mut();
            s.calls.push(json!({"k": k, "cb": "before", "wid": w.id, "log": w.log}));
            s.attempts.get(k).and_then(|a| a["before"].as_u64())
        });
        w.log.push(0);
        if let Some(p) = pan {
            if eager(p) {
                do_panic(p);
            }
        }
        async move {
            if let Some(p) = pan {
                do_panic(p);
            }
        }
        .boxed_local()
    }
    fn after<'a>(
        _: &'a gherkin::Feature,
        _: Option<&'a gherkin::Rule>,
        _: &'a gherkin::Scenario,
        r: &'a event::ScenarioFinished,
        w: Option<&'a mut AW>,
    ) -> futures::future::LocalBoxFuture<'a, ()> {
        let pan = ST.with(|s| {
            let mut s = s.borrow_mut();
            let k = s.after_calls;
            s.after_calls += 1;
            s.calls.push(json!({
                "k": k, "cb": "after", "reason": reason_json(r),
                "wid": w.as_ref().map(|w| w.id), "log": w.as_ref().map(|w| w.log.clone()),
            }));
            s.attempts.get(k).and_then(|a| a["after"].as_u64())
        });
        if let Some(p) = pan {
            if eager(p) {
                do_panic(p);
            }
        }
        async move {
            if let Some(p) = pan {
                do_panic(p);
            }
        }
        .boxed_local()
    }

    let has_b = case["before"].as_bool().unwrap_or(false);
    let has_a = case["after"].as_bool().unwrap_or(false);
    // the builder chain in different orders: every builder method must carry the other settings over.
    // `chain` 1: `.after()` before `.before()`; `which` 1 / 2: a classifier (classifying like the default one) installed
    // first / last in the chain
    fn classify(f: &gherkin::Feature, r: Option<&gherkin::Rule>, s: &gherkin::Scenario) -> runner::basic::ScenarioType {
        let serial = s.tags.iter().chain(r.iter().flat_map(|r| &r.tags)).chain(&f.tags).any(|t| t == "serial");
        if serial { runner::basic::ScenarioType::Serial } else { runner::basic::ScenarioType::Concurrent }
    }
    let chain = case["chain"].as_u64().unwrap_or(0);
    let which = case["which"].as_u64().unwrap_or(0);
    let evs = match (has_b, has_a, chain, which) {
        (false, false, _, 0) => collect(base, feature, cli),
        (false, false, _, _) => collect(base.which_scenario(classify), feature, cli),
        (true, false, _, 0) => collect(base.before(before), feature, cli),
        (true, false, _, 1) => collect(base.which_scenario(classify).before(before), feature, cli),
        (true, false, _, _) => collect(base.before(before).which_scenario(classify), feature, cli),
        (false, true, _, 0) => collect(base.after(after), feature, cli),
        (false, true, _, 1) => collect(base.which_scenario(classify).after(after), feature, cli),
        (false, true, _, _) => collect(base.after(after).which_scenario(classify), feature, cli),
        (true, true, 0, 0) => collect(base.before(before).after(after), feature, cli),
        (true, true, 0, 1) => collect(base.which_scenario(classify).before(before).after(after), feature, cli),
        (true, true, 0, _) => collect(base.before(before).after(after).which_scenario(classify), feature, cli),
        (true, true, _, 0) => collect(base.after(after).before(before), feature, cli),
        (true, true, _, 1) => collect(base.which_scenario(classify).after(after).before(before), feature, cli),
        (true, true, _, _) => collect(base.after(after).before(before).which_scenario(classify), feature, cli),
    };

    let during = HOOK_CALLS.load(Ordering::SeqCst);
    // is the hook installed before the run back in place?
    let _ = std::thread::spawn(|| {
        let _ = panic::catch_unwind(|| panic::panic_any(0u8));
    })
    .join();
    let after_marker = HOOK_CALLS.load(Ordering::SeqCst);
    panic::set_hook(prev);

    let calls = ST.with(|s| std::mem::take(&mut s.borrow_mut().calls));
    json!({
        "events": evs,
        "calls": calls,
        "hook_calls_during_run": during,
        "hook_restored": after_marker == during + 1,
    })
}
