//! Engine `twins` (C03 on parser items that are EQUAL BY VALUE): the same feature delivered several times (the same
//! file listed twice, generated features without a path ...). The runner wraps every item in its own `Source`, which
//! compares by pointer; nothing may identify two such items with each other. Identity is recovered the same way here:
//! features, rules and scenarios are numbered by the pointer of the `Source` the events carry (first seen = 1, 2, ...),
//! so the ordering contract can be judged on a stream whose ids are instance ids.
//!
//! Case: {"copies": 2..3, "top": n, "rule_scens": n, "concurrency": null|k, "yields": [..per scenario..], "path": bool}

use std::{
    cell::RefCell,
    collections::HashMap,
    pin::Pin,
    task::{Context, Poll},
};

use cucumber::{
    Runner as _, World,
    event::{self, Cucumber, Source},
    runner, step,
};
use futures::{FutureExt as _, StreamExt as _, future::LocalBoxFuture, stream};
use serde_json::{Value, json};

use crate::{events, util};

#[derive(Debug)]
struct W;
impl World for W {
    type Error = std::convert::Infallible;
    async fn new() -> Result<Self, Self::Error> {
        Ok(W)
    }
}

struct YieldN(u64);
impl Future for YieldN {
    type Output = ();
    fn poll(mut self: Pin<&mut Self>, cx: &mut Context<'_>) -> Poll<()> {
        if self.0 == 0 {
            Poll::Ready(())
        } else {
            self.0 -= 1;
            cx.waker().wake_by_ref();
            Poll::Pending
        }
    }
}

thread_local! {
    static YIELDS: RefCell<Vec<u64>> = const { RefCell::new(Vec::new()) };
    static CALLS: RefCell<u64> = const { RefCell::new(0) };
}

fn a_step(_: &mut W, _: step::Context) -> LocalBoxFuture<'_, ()> {
    async move {
        // the k-th step call suspends yields[k % len] times: the scenarios do not complete in lock-step
        let n = CALLS.with(|c| {
            let mut c = c.borrow_mut();
            *c += 1;
            *c - 1
        });
        let y = YIELDS.with(|y| {
            let y = y.borrow();
            if y.is_empty() { 0 } else { y[(n as usize) % y.len()] }
        });
        YieldN(y).await;
    }
    .boxed_local()
}

#[derive(Default)]
struct Ids {
    map: HashMap<usize, u64>,
}
impl Ids {
    fn of<T>(&mut self, s: &Source<T>) -> u64 {
        let p = std::ptr::from_ref::<T>(&**s) as usize;
        let n = self.map.len() as u64 + 1;
        *self.map.entry(p).or_insert(n)
    }
}

pub fn run(case: &Value) -> Value {
    let prev = std::panic::take_hook();
    std::panic::set_hook(Box::new(|_| {}));
    YIELDS.with(|y| *y.borrow_mut() = case["yields"].as_array().map(|a| a.iter().filter_map(Value::as_u64).collect()).unwrap_or_default());
    CALLS.with(|c| *c.borrow_mut() = 0);

    let mut f = util::feature("the same feature", vec![]);
    f.position.line = 1;
    if case["path"].as_bool().unwrap_or(false) {
        f.path = Some("features/same.feature".into());
    }
    let mut line = 2;
    for i in 0..case["top"].as_u64().unwrap_or(1) {
        let mut s = util::scenario(&format!("top {i}"), vec![], line);
        s.steps.push(util::step(gherkin::StepType::Given, "a step", line + 1));
        f.scenarios.push(s);
        line += 2;
    }
    let nr = case["rule_scens"].as_u64().unwrap_or(0);
    if nr > 0 {
        let mut r = util::rule("a rule", vec![], line);
        line += 1;
        for i in 0..nr {
            let mut s = util::scenario(&format!("in rule {i}"), vec![], line);
            s.steps.push(util::step(gherkin::StepType::Given, "a step", line + 1));
            r.scenarios.push(s);
            line += 2;
        }
        f.rules.push(r);
    }
    let copies = case["copies"].as_u64().unwrap_or(2) as usize;
    let items: Vec<cucumber::parser::Result<gherkin::Feature>> = (0..copies).map(|_| Ok(f.clone())).collect();

    let r = runner::Basic::<W>::default()
        .max_concurrent_scenarios(case["concurrency"].as_u64().map(|n| n as usize))
        .given(regex::Regex::new("^a step$").expect("regex"), a_step);
    let res = std::panic::catch_unwind(std::panic::AssertUnwindSafe(|| {
        futures::executor::block_on(r.run(stream::iter(items), runner::basic::Cli::default()).collect::<Vec<_>>())
    }));
    std::panic::set_hook(prev);
    let evs = match res {
        Ok(e) => e,
        Err(p) => return json!({"panicked": true, "message": util::payload_to_string(&p), "events": []}),
    };

    // instance ids by pointer
    let (mut fi, mut ri, mut si) = (Ids::default(), Ids::default(), Ids::default());
    let mut out = Vec::new();
    for e in &evs {
        let Ok(e) = e else { continue };
        out.push(match &e.value {
            Cucumber::Started => json!(["Started"]),
            Cucumber::Finished => json!(["Finished"]),
            Cucumber::ParsingFinished { features, rules, scenarios, steps, parser_errors } => {
                json!(["ParsingFinished", features, rules, scenarios, steps, parser_errors])
            }
            Cucumber::Feature(f, fe) => {
                let fid = fi.of(f);
                match fe {
                    event::Feature::Started => json!(["FeatS", fid]),
                    event::Feature::Finished => json!(["FeatF", fid]),
                    event::Feature::Scenario(s, e) => {
                        json!(["Scen", fid, null, si.of(s), e.retries.map(|r| json!([r.current, r.left])), events::scen_json(&e.event)])
                    }
                    event::Feature::Rule(r, re) => {
                        let rid = ri.of(r);
                        match re {
                            event::Rule::Started => json!(["RuleS", fid, rid]),
                            event::Rule::Finished => json!(["RuleF", fid, rid]),
                            event::Rule::Scenario(s, e) => {
                                json!(["Scen", fid, rid, si.of(s), e.retries.map(|r| json!([r.current, r.left])), events::scen_json(&e.event)])
                            }
                        }
                    }
                }
            }
        });
    }
    json!({"panicked": false, "message": null, "events": out,
           "instances": [fi.map.len(), ri.map.len(), si.map.len()]})
}
