//! Engine `reporters` (C14): a stream of events through one REAL built-in
//! reporter (each behind `Normalize`, as its public constructor builds it),
//! output captured as text. Parsing back is the orchestrator's job.
//!
//! Case JSON: {"features":[...], "events":[{"meta","ev"}...], "writer":"libtest"|"json"|"junit"|"basic",
//!             "verbose": 0|1|2, "show_output": bool, "short_writes": null|k (the sink accepts at most k bytes per write() call)}

use cucumber::{
    Writer as _,
    writer::{self, Coloring, Verbosity},
};
use serde_json::{Value, json};

use crate::{
    dynpipe::{Sink, now},
    events::{EvW, Tables},
};

fn verbosity(n: u64) -> Verbosity {
    match n {
        0 => Verbosity::Default,
        1 => Verbosity::ShowWorld,
        _ => Verbosity::ShowWorldAndDocString,
    }
}

pub fn run(case: &Value) -> Value {
    let tables = Tables::new(&case["features"]);
    let evs: Vec<_> = case["events"]
        .as_array()
        .into_iter()
        .flatten()
        .enumerate()
        .map(|(i, e)| tables.build(&e["ev"], e["meta"].as_u64().unwrap_or(i as u64)))
        .collect();
    let sink = Sink::default();
    crate::dynpipe::SHORT_WRITES.with(|c| c.set(case["short_writes"].as_u64().map(|k| k as usize)));
    let v = case["verbose"].as_u64().unwrap_or(0);
    match case["writer"].as_str().unwrap_or_default() {
        "libtest" => {
            let mut w = writer::Libtest::<EvW, Sink>::new(sink.clone());
            let cli = writer::libtest::Cli {
                format: Some(writer::libtest::Format::Json),
                show_output: case["show_output"].as_bool().unwrap_or(false),
                report_time: None,
                nightly: None,
            };
            for e in evs {
                now(w.handle_event(e, &cli));
            }
        }
        "json" => {
            let mut w = writer::Json::new::<EvW>(sink.clone());
            for e in evs {
                now(w.handle_event(e, &cucumber::cli::Empty));
            }
        }
        "junit" => {
            let mut w = writer::JUnit::<EvW, Sink>::new(sink.clone(), verbosity(v.min(1)));
            let cli = writer::junit::Cli { verbose: None };
            for e in evs {
                now(w.handle_event(e, &cli));
            }
        }
        _ => {
            let mut w = writer::Basic::new::<EvW>(sink.clone(), Coloring::Never, verbosity(v));
            let cli = writer::basic::Cli { verbose: 0, color: Coloring::Never };
            for e in evs {
                now(w.handle_event(e, &cli));
            }
        }
    }
    crate::dynpipe::SHORT_WRITES.with(|c| c.set(None));
    let bytes = sink.0.borrow().clone();
    json!({ "out": String::from_utf8_lossy(&bytes) })
}
