//! Engine `glue` (C19): a zoo of functions annotated with the REAL step attributes
//! (`#[given]` / `#[when]` / `#[then]`), registered through `inventory` and dispatched through
//! `World::collection()` exactly as a user crate would.
//!
//! Case JSON: {"world": "zw"|"zw2", "probes": [{"ty": 0|1|2, "text": "..."}]}
//! Result: {"registry": <Debug of the collection>, "probes": [{"found": "none"|"amb"|"one",
//!          "line": definition line, "matches": [[name|null, text]], "log": [...], "panic": null|msg}]}
//! The zoo is described to the orchestrator by `zoo_spec()` below (kept next to the functions).

use std::{cell::RefCell, str::FromStr};

use cucumber::{Parameter, World, gherkin::Step, given, then, when};
use futures::FutureExt as _;
use serde_json::{Value, json};

thread_local! {
    static LOG: RefCell<Vec<String>> = const { RefCell::new(Vec::new()) };
}
fn log(s: String) {
    LOG.with(|l| l.borrow_mut().push(s));
}

#[derive(Debug, Default, World)]
pub struct Zw;

#[derive(Debug, Default, World)]
pub struct Zw2;

// ---- custom FromStr types
#[derive(Debug)]
pub struct Even(u32);
impl FromStr for Even {
    type Err = String;
    fn from_str(s: &str) -> Result<Self, String> {
        let n: u32 = s.parse().map_err(|_| "not a number".to_owned())?;
        if n % 2 == 0 { Ok(Even(n)) } else { Err("odd".to_owned()) }
    }
}

#[derive(Debug, Parameter)]
#[param(regex = "(cat)|(dog)", name = "animal")]
pub struct Animal(String);
impl FromStr for Animal {
    type Err = String;
    fn from_str(s: &str) -> Result<Self, String> {
        Ok(Animal(s.to_owned()))
    }
}

#[derive(Debug, Parameter)]
#[param(regex = r"\d+-\d+", name = "range")]
pub struct Range(String);
impl FromStr for Range {
    type Err = String;
    fn from_str(s: &str) -> Result<Self, String> {
        Ok(Range(s.to_owned()))
    }
}

#[derive(Debug, Parameter)]
#[param(regex = r"(\w)(\w)", name = "pair")]
pub struct Pair(String);
impl FromStr for Pair {
    type Err = String;
    fn from_str(s: &str) -> Result<Self, String> {
        Ok(Pair(s.to_owned()))
    }
}

// ---- the zoo (keep the description in props/C19.py in sync)
#[given("a.b (c) [d] \\ ^$ {x}")]
fn lit(_: &mut Zw) {
    log("lit".into());
}
#[given(regex = r"^(\d+) and (\w+)$")]
fn two(_: &mut Zw, a: u32, b: String) {
    log(format!("two|{a}|{b}"));
}
#[when(regex = r"^n(?: (\d+))?(?: (\d+))?(?: (\d+))?$")]
fn sl(_: &mut Zw, v: &[u32]) {
    log(format!("sl|{}", v.iter().map(|x| format!("{x},")).collect::<String>()));
}
#[then(expr = "{int} cukes {word}")]
fn ex(_: &mut Zw, n: i32, s: String) {
    log(format!("ex|{n}|{s}"));
}
#[given(regex = r"^bad (\S+)$")]
fn bad(_: &mut Zw, n: u32) {
    log(format!("bad|{n}"));
}
#[given(regex = r"^err (\w+)$")]
fn er(_: &mut Zw, x: String) -> Result<(), String> {
    log(format!("er|{x}"));
    if x == "ok" { Ok(()) } else { Err(format!("returned err {x}")) }
}
#[given(regex = r"^ctx (\w+)$")]
async fn ctx(_: &mut Zw, #[step] st: &Step, x: String) {
    log(format!("ctx|{}|{x}", sdisp(st)));
}
#[given(regex = r"^multi$")]
#[when(regex = r"^multi$")]
#[then(regex = r"^multi2$")]
fn multi(_: &mut Zw) {
    log("multi".into());
}
#[given(regex = r"^opt(?: (\d+))?( x)?$")]
fn opt(_: &mut Zw, n: String, x: String) {
    log(format!("opt|{n}|{x}"));
}
#[given(expr = "an {animal} and {int}")]
fn par(_: &mut Zw, a: Animal, n: i32) {
    log(format!("par|{}|{n}", a.0));
}
#[given(regex = r"^named (?P<b>\d+) (?P<a>\d+)$")]
fn named(_: &mut Zw, a: u32, b: u32) {
    log(format!("named|{a}|{b}"));
}
#[when(regex = r"^even (\d+) (\d+)$")]
fn even(_: &mut Zw, a: Even, b: Even) {
    log(format!("even|{}|{}", a.0, b.0));
}
#[then(regex = r"^few (\d+)$")]
fn few(_: &mut Zw, a: u32, b: u32) {
    log(format!("few|{a}|{b}"));
}
#[when(expr = "range {range} then {animal} or {animal}")]
async fn rng(_: &mut Zw, r: Range, a: Animal, b: Animal) -> Result<(), String> {
    log(format!("rng|{}|{}|{}", r.0, a.0, b.0));
    Ok(())
}
#[then(regex = r"^slice ctx (\w+) (\w+)$")]
fn slctx(_: &mut Zw, #[step] st: &Step, v: &[String]) {
    log(format!("slctx|{}|{}", sdisp(st), v.iter().map(|x| format!("{x},")).collect::<String>()));
}
#[when("literal with step")]
fn litstep(_: &mut Zw, #[step] st: &Step) {
    log(format!("litstep|{}", sdisp(st)));
}
#[then(expr = "I eat {string} and {float}")]
fn strf(_: &mut Zw, s: String, f: f64) {
    log(format!("strf|{s}|{f}"));
}
#[given(regex = r"ünï (é+)(.)?")]
fn uni(_: &mut Zw, a: String, b: String) {
    log(format!("uni|{a}|{b}"));
}
#[given(regex = r"^amb (\d+)$")]
fn amb1(_: &mut Zw, a: u32) {
    log(format!("amb1|{a}"));
}
#[given(regex = r"^amb (\d)$")]
fn amb2(_: &mut Zw, a: u32) {
    log(format!("amb2|{a}"));
}
#[given(expr = "pair {pair} then {int}")]
fn pr(_: &mut Zw, p: Pair, n: i32) {
    log(format!("pr|{}|{n}", p.0));
}
// the same pattern under the same keyword on two functions (e.g. a step copy-pasted into another module): both are
// registered, and a step matching it is ambiguous with BOTH listed
#[given(regex = r"^dup (\d+)$")]
fn dup1(_: &mut Zw, a: u32) {
    log(format!("dup1|{a}"));
}
#[given(regex = r"^dup (\d+)$")]
fn dup2(_: &mut Zw, a: u32) {
    log(format!("dup2|{a}"));
}
type StepResult = Result<(), String>;
type Fallible<T = ()> = Result<T, Box<dyn std::error::Error>>;
#[when(regex = r"^alias (\w+)$")]
fn alias1(_: &mut Zw, x: String) -> StepResult {
    log(format!("alias1|{x}"));
    if x == "ok" { Ok(()) } else { Err(format!("returned err {x}")) }
}
#[then(regex = r"^alias2 (\w+)$")]
async fn alias2(_: &mut Zw, x: String) -> Fallible {
    log(format!("alias2|{x}"));
    if x == "ok" { Ok(()) } else { Err(format!("returned err {x}").into()) }
}
// literals that begin with `^` / end with `$` themselves: still anchored on both sides
#[given("I have 10$")]
fn dollar(_: &mut Zw) {
    log("dollar".to_owned());
}
#[when("^caret first")]
fn caret(_: &mut Zw) {
    log("caret".to_owned());
}
// a Cucumber Expression WITHOUT parameters but with escaped reserved characters: `\/`, `\(`, `\)` stand for themselves
#[then(expr = "I pay 5\\/6 of the price \\(approx\\)")]
fn escapes(_: &mut Zw) {
    log("escapes".to_owned());
}
// a second World: its own registry
#[given(regex = r"^(\d+) and (\w+)$")]
fn two2(_: &mut Zw2, a: u32, b: String) {
    log(format!("two2|{a}|{b}"));
}
#[then("only in zw2")]
fn only2(_: &mut Zw2) {
    log("only2".into());
}

thread_local! {
    /// Every probe's step carries a doc string of its own (`doc#<n>`, n counting the probes of the process): a `#[step]`
    /// argument must be THE step being run — same keyword, text and position as an earlier probe, but its own attachments.
    static PROBE_NO: std::cell::Cell<u64> = const { std::cell::Cell::new(0) };
    static EXPECT_DOC: RefCell<String> = const { RefCell::new(String::new()) };
}
/// What a function displays for its `#[step]` argument: `<step>` iff it was handed the step of THIS probe.
fn sdisp(st: &Step) -> &'static str {
    let ok = EXPECT_DOC.with(|d| st.docstring.as_deref() == Some(d.borrow().as_str()));
    if ok { "<step>" } else { "<step:STALE>" }
}
fn step(ty: u64, text: &str) -> Step {
    let ty = match ty {
        0 => gherkin::StepType::Given,
        1 => gherkin::StepType::When,
        _ => gherkin::StepType::Then,
    };
    let mut st = crate::util::step(ty, text, 1);
    let n = PROBE_NO.with(|c| {
        c.set(c.get() + 1);
        c.get()
    });
    let doc = format!("doc#{n}");
    EXPECT_DOC.with(|d| d.borrow_mut().clone_from(&doc));
    st.docstring = Some(doc);
    st
}

fn probe<W: World + Default>(coll: &cucumber::step::Collection<W>, p: &Value) -> Value {
    let st = step(p["ty"].as_u64().unwrap_or(0), p["text"].as_str().unwrap_or_default());
    match coll.find(&st) {
        Ok(None) => json!({"found": "none"}),
        Err(e) => json!({"found": "amb", "n": e.possible_matches.len()}),
        Ok(Some((f, _, loc, ctx))) => {
            LOG.with(|l| l.borrow_mut().clear());
            let mut w = W::default();
            let matches: Vec<Value> =
                ctx.matches.iter().map(|(n, v)| json!([n, v])).collect();
            let r = futures::executor::block_on(
                std::panic::AssertUnwindSafe(f(&mut w, ctx)).catch_unwind(),
            );
            let panic = r.err().map(|e| crate::util::payload_to_string(&e));
            json!({
                "found": "one",
                "line": loc.map(|l| l.line),
                "matches": matches,
                "log": LOG.with(|l| l.borrow().clone()),
                "panic": panic,
            })
        }
    }
}

pub fn run(case: &Value) -> Value {
    let prev = std::panic::take_hook();
    std::panic::set_hook(Box::new(|_| {}));
    let probes = case["probes"].as_array().cloned().unwrap_or_default();
    let (registry, res): (String, Vec<Value>) = if case["world"] == "zw2" {
        let c = Zw2::collection();
        (format!("{c:?}"), probes.iter().map(|p| probe(&c, p)).collect())
    } else {
        let c = Zw::collection();
        (format!("{c:?}"), probes.iter().map(|p| probe(&c, p)).collect())
    };
    std::panic::set_hook(prev);
    json!({"registry": registry, "probes": res})
}
