//! Engine `filter` (C15): `Cucumber::filter_run` with a parser that yields the
//! case's features and a recording `Runner` that keeps what it is handed.

use std::{cell::RefCell, collections::HashMap, rc::Rc};

use cucumber::{Cucumber, Event, World, cli, event, parser};
use futures::{Stream, StreamExt as _, executor::block_on, stream};
use serde_json::{Value, json};

use crate::util;

#[derive(Debug, Default)]
struct W;
impl World for W {
    type Error = std::convert::Infallible;
    async fn new() -> Result<Self, Self::Error> {
        Ok(W)
    }
}

struct Null;
impl cucumber::Writer<W> for Null {
    type Cli = cli::Empty;
    async fn handle_event(
        &mut self,
        _: parser::Result<Event<event::Cucumber<W>>>,
        _: &Self::Cli,
    ) {
    }
}

impl cucumber::writer::Normalized for Null {}

struct VecParser(Vec<gherkin::Feature>);
impl cucumber::Parser<()> for VecParser {
    type Cli = cli::Empty;
    type Output = stream::Iter<std::vec::IntoIter<parser::Result<gherkin::Feature>>>;
    fn parse(self, (): (), _: cli::Empty) -> Self::Output {
        stream::iter(self.0.into_iter().map(Ok).collect::<Vec<_>>())
    }
}

struct RecRunner(Rc<RefCell<Vec<Value>>>);
impl cucumber::Runner<W> for RecRunner {
    type Cli = cli::Empty;
    type EventStream = futures::stream::LocalBoxStream<
        'static,
        parser::Result<Event<event::Cucumber<W>>>,
    >;
    fn run<S>(self, features: S, _: cli::Empty) -> Self::EventStream
    where
        S: Stream<Item = parser::Result<gherkin::Feature>> + 'static,
    {
        let log = self.0;
        features
            .filter_map(move |f| {
                if let Ok(f) = &f {
                    log.borrow_mut().push(util::feature_to_json(f));
                }
                async { None }
            })
            .boxed_local()
    }
}

pub fn run(case: &Value) -> Value {
    let features: Vec<gherkin::Feature> = case["features"]
        .as_array()
        .map(|a| a.iter().map(util::feature_from_json).collect())
        .unwrap_or_default();
    let re = case["re"].as_str().map(|s| regex::Regex::new(s).expect("valid regex"));
    let tags = util::tagop(&case["tags"]);
    let user: HashMap<u64, bool> = case["user"]
        .as_array()
        .map(|a| {
            a.iter()
                .map(|kv| (kv[0].as_u64().unwrap_or(0), kv[1].as_bool().unwrap_or(false)))
                .collect()
        })
        .unwrap_or_default();

    // oracle table: what the `--name` regex says about every scenario name
    let mut re_table = Vec::new();
    if let Some(re) = &re {
        let mut names = std::collections::BTreeSet::new();
        for f in &features {
            for s in f.scenarios.iter().chain(f.rules.iter().flat_map(|r| &r.scenarios)) {
                names.insert(s.name.clone());
            }
        }
        for n in names {
            re_table.push(json!([n, re.is_match(&n)]));
        }
    }

    let log = Rc::new(RefCell::new(Vec::new()));
    let calls = Rc::new(RefCell::new(0usize));
    let calls2 = Rc::clone(&calls);
    let opts = cli::Opts::<cli::Empty, cli::Empty, cli::Empty, cli::Empty> {
        re_filter: re,
        tags_filter: tags,
        parser: cli::Empty,
        runner: cli::Empty,
        writer: cli::Empty,
        custom: cli::Empty,
    };
    let c = Cucumber::<W, _, (), _, _, cli::Empty>::custom(
        VecParser(features),
        RecRunner(Rc::clone(&log)),
        Null,
    )
    .with_cli(opts);
    block_on(c.filter_run((), move |_, _, s| {
        *calls2.borrow_mut() += 1;
        user.get(&(s.position.line as u64)).copied().unwrap_or(false)
    }));
    json!({
        "handed": Value::Array(log.borrow().clone()),
        "re_table": re_table,
        "closure_calls": *calls.borrow(),
    })
}
