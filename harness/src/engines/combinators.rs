//! Engine `combinators` (C13): arbitrary event lists through arbitrary
//! nestings of the real FailOnSkipped / Repeat / Tee / Or / discard wrappers
//! around recording leaves.

use std::{cell::RefCell, rc::Rc};

use serde_json::{Value, json};

use crate::{
    dynpipe,
    events::Tables,
};

pub fn run(case: &Value) -> Value {
    let tables = Tables::new(&case["features"]);
    let log: dynpipe::Log = Rc::new(RefCell::new(Vec::new()));
    let mut w = dynpipe::build(&case["pipe"], &log);
    let mut calls = Vec::new();
    for (i, e) in case["events"].as_array().into_iter().flatten().enumerate() {
        let ev = tables.build(&e["ev"], e["meta"].as_u64().unwrap_or(i as u64));
        w.0.handle(ev);
        calls.push(Value::Array(std::mem::take(&mut *log.borrow_mut())));
    }
    w.0.write("hello".to_owned());
    let writes = Value::Array(std::mem::take(&mut *log.borrow_mut()));
    json!({
        "calls": calls,
        "writes": writes,
        "stats": w.0.stats().to_vec(),
        "failed": w.0.failed(),
    })
}
