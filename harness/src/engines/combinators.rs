//! Engine `combinators` (C13): arbitrary event lists through arbitrary
//! nestings of the real FailOnSkipped / Repeat / Tee / Or / discard wrappers
//! around recording leaves.

use std::{cell::RefCell, rc::Rc};

use serde_json::{Value, json};

use crate::{
    dynpipe,
    events::Tables,
};

pub fn run(case: &Value) -> Value {
    let tables = Tables::new(&case["features"]);
    let log: dynpipe::Log = Rc::new(RefCell::new(Vec::new()));
    let mut w = dynpipe::build(&case["pipe"], &log);
    let mut calls = Vec::new();
    let mut stats_seq = Vec::new();
    let mut extra_seq = Vec::new();
    for (i, e) in case["events"].as_array().into_iter().flatten().enumerate() {
        let ev = tables.build(&e["ev"], e["meta"].as_u64().unwrap_or(i as u64));
        w.0.handle(ev);
        calls.push(Value::Array(std::mem::take(&mut *log.borrow_mut())));
        let st = w.0.stats();
        stats_seq.push(json!([st[0], st[1], st[2], st[3], st[4], st[5], w.0.failed()]));
        extra_seq.push(w.0.extra());
    }
    w.0.write("hello".to_owned());
    let writes = Value::Array(std::mem::take(&mut *log.borrow_mut()));
    json!({
        "calls": calls,
        "stats_seq": stats_seq,
        "extra_seq": extra_seq,
        "writes": writes,
        "stats": w.0.stats().to_vec(),
        "failed": w.0.failed(),
    })
}
