//! Engine `exit` (C01, last link): `Cucumber::run_and_exit` / `filter_run_and_exit` around a writer whose
//! `Stats` getters are scripted. Observed: whether the call panics, and the panic message.
//!
//! Case: {"passed": n, "skipped": n, "failed": n, "retried": n, "parsing": n, "hooks": n, "filtered": bool}

use cucumber::{Event, World, Writer, cli, event, parser, writer};
use futures::FutureExt as _;
use serde_json::{Value, json};

#[derive(Debug, Default)]
struct W;
impl World for W {
    type Error = std::convert::Infallible;
    async fn new() -> Result<Self, Self::Error> {
        Ok(W)
    }
}

#[derive(Clone, Copy)]
struct Fixed([usize; 6]);
impl Writer<W> for Fixed {
    type Cli = cli::Empty;
    async fn handle_event(&mut self, _: parser::Result<Event<event::Cucumber<W>>>, _: &Self::Cli) {}
}
impl writer::Stats<W> for Fixed {
    fn passed_steps(&self) -> usize { self.0[0] }
    fn skipped_steps(&self) -> usize { self.0[1] }
    fn failed_steps(&self) -> usize { self.0[2] }
    fn retried_steps(&self) -> usize { self.0[3] }
    fn parsing_errors(&self) -> usize { self.0[4] }
    fn hook_errors(&self) -> usize { self.0[5] }
}
impl writer::Normalized for Fixed {}
impl writer::NonTransforming for Fixed {}

struct NoFeatures;
impl cucumber::Parser<()> for NoFeatures {
    type Cli = cli::Empty;
    type Output = futures::stream::Iter<std::vec::IntoIter<parser::Result<gherkin::Feature>>>;
    fn parse(self, (): (), _: cli::Empty) -> Self::Output {
        futures::stream::iter(Vec::new())
    }
}

pub fn run(case: &Value) -> Value {
    let n = |k: &str| case[k].as_u64().unwrap_or(0) as usize;
    let w = Fixed([n("passed"), n("skipped"), n("failed"), n("retried"), n("parsing"), n("hooks")]);
    let filtered = case["filtered"].as_bool().unwrap_or(false);
    let prev = std::panic::take_hook();
    std::panic::set_hook(Box::new(|_| {}));
    let fut = async move {
        let c = cucumber::Cucumber::<W, _, _, _, _, cli::Empty>::custom(
            NoFeatures,
            cucumber::runner::Basic::default(),
            w,
        )
        .with_default_cli();
        if filtered {
            c.filter_run_and_exit((), |_, _, _| true).await;
        } else {
            c.run_and_exit(()).await;
        }
    };
    let r = futures::executor::block_on(std::panic::AssertUnwindSafe(fut).catch_unwind());
    std::panic::set_hook(prev);
    match r {
        Ok(()) => json!({"panicked": false, "message": null}),
        Err(e) => json!({"panicked": true, "message": crate::util::payload_to_string(&e)}),
    }
}
