//! Engine `stepmatch` (C17): `step::Collection::{given,when,then,find}`.

use std::collections::BTreeMap;

use cucumber::{World, step};
use futures::{executor::block_on, future::LocalBoxFuture};
use regex::Regex;
use serde_json::{Value, json};

#[derive(Debug, Default)]
struct W(u64);
impl World for W {
    type Error = std::convert::Infallible;
    async fn new() -> Result<Self, Self::Error> {
        Ok(W(0))
    }
}

macro_rules! step_fns {
    ($($name:ident = $k:expr),*) => {
        $(fn $name<'a>(w: &'a mut W, _: step::Context) -> LocalBoxFuture<'a, ()> {
            Box::pin(async move { w.0 = $k; })
        })*
        const FNS: &[step::Step<W>] = &[$($name),*];
    };
}
step_fns!(f0 = 100, f1 = 101, f2 = 102, f3 = 103, f4 = 104, f5 = 105, f6 = 106, f7 = 107);

const PATHS: &[&str] = &["a.rs", "b.rs", "src/é.rs", "a.rs2", ""];

fn loc_of(v: &Value) -> Option<step::Location> {
    if v.is_null() {
        return None;
    }
    Some(step::Location {
        path: PATHS[v[0].as_u64().unwrap_or(0) as usize % PATHS.len()],
        line: v[1].as_u64().unwrap_or(0) as u32,
        column: v[2].as_u64().unwrap_or(0) as u32,
    })
}

fn loc_json(l: Option<step::Location>) -> Value {
    match l {
        None => Value::Null,
        Some(l) => json!([l.path, l.line, l.column]),
    }
}

fn build(regs: &[Value]) -> step::Collection<W> {
    let mut c = step::Collection::<W>::new();
    for r in regs {
        let re = Regex::new(r["re"].as_str().unwrap_or_default()).expect("valid regex");
        let f = FNS[r["fn"].as_u64().unwrap_or(0) as usize % FNS.len()];
        let loc = loc_of(&r["loc"]);
        c = match r["ty"].as_u64().unwrap_or(0) {
            0 => c.given(loc, re, f),
            1 => c.when(loc, re, f),
            _ => c.then(loc, re, f),
        };
    }
    c
}

fn find_json(c: &step::Collection<W>, st: &gherkin::Step) -> Value {
    match c.find(st) {
        Ok(None) => json!({"k": "none"}),
        Ok(Some((f, _caps, loc, ctx))) => {
            let mut w = W(0);
            let matches = ctx.matches.clone();
            block_on(f(&mut w, ctx));
            json!({"k": "found", "fn": w.0 - 100, "loc": loc_json(loc), "matches": matches})
        }
        Err(e) => json!({
            "k": "amb",
            "keys": e.possible_matches.iter()
                .map(|(re, loc)| json!([re.as_str(), loc_json(*loc)]))
                .collect::<Vec<_>>(),
            "display": e.to_string(),
        }),
    }
}

pub fn run(case: &Value) -> Value {
    let regs_a: Vec<Value> = case["regs"].as_array().cloned().unwrap_or_default();
    let regs_b: Vec<Value> = case["regs_b"].as_array().cloned().unwrap_or_default();
    // a Collection is `Clone` (runner::Basic clones it): a copy must answer exactly like the original
    let ca = build(&regs_a);
    let cb = build(&regs_b).clone();

    // oracle: what the regex engine says for every (regex, step text)
    let mut rx: BTreeMap<String, BTreeMap<String, Value>> = BTreeMap::new();
    let mut names: BTreeMap<String, Value> = BTreeMap::new();
    let steps: Vec<Value> = case["steps"].as_array().cloned().unwrap_or_default();
    for r in &regs_a {
        let src = r["re"].as_str().unwrap_or_default();
        if names.contains_key(src) {
            continue;
        }
        let re = Regex::new(src).expect("valid regex");
        names.insert(src.to_owned(), json!(re.capture_names().collect::<Vec<_>>()));
        let e = rx.entry(src.to_owned()).or_default();
        for s in &steps {
            let text = s["text"].as_str().unwrap_or_default();
            let caps = re.captures(text).map(|c| {
                (0..c.len())
                    .map(|i| c.get(i).map(|m| m.as_str().to_owned()))
                    .collect::<Vec<_>>()
            });
            e.insert(text.to_owned(), json!(caps));
        }
    }

    let mut out = Vec::new();
    for s in &steps {
        let st = crate::util::step(
            match s["ty"].as_u64().unwrap_or(0) {
                0 => gherkin::StepType::Given,
                1 => gherkin::StepType::When,
                _ => gherkin::StepType::Then,
            },
            s["text"].as_str().unwrap_or_default(),
            1,
        );
        out.push(json!({"a": find_json(&ca, &st), "b": find_json(&cb, &st)}));
    }
    json!({
        "results": out,
        "rx": rx,
        "names": names,
        "paths": PATHS,
    })
}
