//! Shared event infrastructure: JSON <-> real `Event<event::Cucumber<EvW>>`.
//!
//! Event JSON (also the python/Coq vocabulary, coq/Model/Events.v):
//!   ["Started"] | ["ParsingFinished",f,r,s,st,e] | ["ParseErr",id] | ["Finished"]
//!   ["FeatS",f] | ["FeatF",f] | ["RuleS",f,r] | ["RuleF",f,r]
//!   ["Scen",f,r|null,s,[cur,left]|null,scev]
//!   scev = ["Started"] | ["Finished"] | ["Log",m] | ["Hook",before,hookev] | ["Bg",st,stepev] | ["Step",st,stepev]
//!   hookev = "Started" | "Passed" | ["Failed",payload]
//!   stepev = "Started" | "Passed" | "Skipped" | ["Failed","NotFound"|"Ambiguous"|["Panic",payload]]
//! Ids are the `position.line` of the gherkin objects (unique within a case).
//! An observed event is `{"meta": n, "ev": <event JSON>}`; `meta` is the
//! `Event::at` timestamp in microseconds since the epoch (set by the harness).

use std::{
    collections::HashMap,
    sync::Arc,
    time::{Duration, SystemTime, UNIX_EPOCH},
};

use cucumber::{
    Event, World,
    event::{self, Cucumber, Retries, Source},
    parser, step,
};
use serde_json::{Value, json};

/// Its `Debug` output is a marker: reporters print the World of a failed step or hook only from the `ShowWorld` verbosity on.
#[derive(Default)]
pub struct EvW;
impl std::fmt::Debug for EvW {
    fn fmt(&self, f: &mut std::fmt::Formatter<'_>) -> std::fmt::Result {
        f.write_str("WORLDDUMP#")
    }
}
impl World for EvW {
    type Error = std::convert::Infallible;
    async fn new() -> Result<Self, Self::Error> {
        Ok(EvW)
    }
}

pub type Ev = parser::Result<Event<Cucumber<EvW>>>;

/// `Source`s of one case, by id.
#[derive(Default)]
pub struct Tables {
    pub feats: HashMap<u64, Source<gherkin::Feature>>,
    pub rules: HashMap<u64, Source<gherkin::Rule>>,
    pub scens: HashMap<u64, Source<gherkin::Scenario>>,
    pub steps: HashMap<u64, Source<gherkin::Step>>,
}

impl Tables {
    pub fn new(features: &Value) -> Self {
        let mut t = Self::default();
        for fj in features.as_array().into_iter().flatten() {
            let f = crate::util::feature_from_json(fj);
            let mut add_steps = |steps: &[gherkin::Step]| {
                for s in steps {
                    t.steps
                        .entry(s.position.line as u64)
                        .or_insert_with(|| Source::new(s.clone()));
                }
            };
            if let Some(bg) = &f.background {
                add_steps(&bg.steps);
            }
            for s in &f.scenarios {
                add_steps(&s.steps);
            }
            for r in &f.rules {
                if let Some(bg) = &r.background {
                    add_steps(&bg.steps);
                }
                for s in &r.scenarios {
                    add_steps(&s.steps);
                }
            }
            for s in &f.scenarios {
                t.scens.insert(s.position.line as u64, Source::new(s.clone()));
            }
            for r in &f.rules {
                for s in &r.scenarios {
                    t.scens.insert(s.position.line as u64, Source::new(s.clone()));
                }
                t.rules.insert(r.position.line as u64, Source::new(r.clone()));
            }
            t.feats.insert(f.position.line as u64, Source::new(f));
        }
        t
    }

    fn feat(&self, id: u64) -> Source<gherkin::Feature> {
        self.feats.get(&id).cloned().unwrap_or_else(|| {
            let mut f = crate::util::feature("ghost", vec![]);
            f.position.line = id as usize;
            Source::new(f)
        })
    }
    fn rule(&self, id: u64) -> Source<gherkin::Rule> {
        self.rules
            .get(&id)
            .cloned()
            .unwrap_or_else(|| Source::new(crate::util::rule("ghost", vec![], id as usize)))
    }
    fn scen(&self, id: u64) -> Source<gherkin::Scenario> {
        self.scens
            .get(&id)
            .cloned()
            .unwrap_or_else(|| Source::new(crate::util::scenario("ghost", vec![], id as usize)))
    }
    fn step(&self, id: u64) -> Source<gherkin::Step> {
        self.steps.get(&id).cloned().unwrap_or_else(|| {
            Source::new(crate::util::step(gherkin::StepType::Given, "ghost", id as usize))
        })
    }

    /// Capture locations of a regex with NESTED groups matched against the step text: group 1 spans the whole
    /// text, groups 2 and 3 (first word, rest) lie inside it. Writers that render captures must still print the
    /// step text exactly once.
    fn nested_captures(text: &str) -> regex::CaptureLocations {
        let re = regex::Regex::new(r"(?s)^((\S*)\s?(.*))$").expect("regex");
        let mut locs = re.capture_locations();
        let _ = re.captures_read(&mut locs, text);
        locs
    }

    fn step_ev(&self, v: &Value, text: &str) -> event::Step<EvW> {
        match v {
            Value::String(s) => match s.as_str() {
                "Started" => event::Step::Started,
                "Passed" => event::Step::Passed(Self::nested_captures(text), None),
                _ => event::Step::Skipped,
            },
            _ => {
                let k = &v[1];
                let err = if k == "NotFound" {
                    event::StepError::NotFound
                } else if k == "Ambiguous" {
                    event::StepError::AmbiguousMatch(step::AmbiguousMatchError {
                        possible_matches: vec![],
                    })
                } else {
                    event::StepError::Panic(payload(k[1].as_u64().unwrap_or(0)))
                };
                // a step that matched and then panicked carries its captures; the other failures have none
                let caps = if k != "NotFound" && k != "Ambiguous" { Some(Self::nested_captures(text)) } else { None };
                // a step that ran (matched, then panicked) hands its World to the event
                let world = caps.as_ref().map(|_| Arc::new(EvW));
                event::Step::Failed(caps, None, world, err)
            }
        }
    }

    pub fn build(&self, v: &Value, meta: u64) -> Ev {
        let kind = v[0].as_str().unwrap_or_default();
        let n = |i: usize| v[i].as_u64().unwrap_or(0);
        let cu: Cucumber<EvW> = match kind {
            "Started" => Cucumber::Started,
            "Finished" => Cucumber::Finished,
            "ParsingFinished" => Cucumber::ParsingFinished {
                features: n(1) as usize,
                rules: n(2) as usize,
                scenarios: n(3) as usize,
                steps: n(4) as usize,
                parser_errors: n(5) as usize,
            },
            "ParseErr" => {
                return Err(parser::Error::ExampleExpansion(Arc::new(
                    cucumber::feature::ExpandExamplesError {
                        pos: gherkin::LineCol { line: n(1) as usize, col: meta as usize },
                        name: format!("e{}", n(1)),
                        path: None,
                    },
                )));
            }
            "FeatS" => Cucumber::feature_started(self.feat(n(1))),
            "FeatF" => Cucumber::feature_finished(self.feat(n(1))),
            "RuleS" => Cucumber::rule_started(self.feat(n(1)), self.rule(n(2))),
            "RuleF" => Cucumber::rule_finished(self.feat(n(1)), self.rule(n(2))),
            _ => {
                let sc = &v[5];
                let e: event::Scenario<EvW> = match sc[0].as_str().unwrap_or_default() {
                    "Started" => event::Scenario::Started,
                    "Finished" => event::Scenario::Finished,
                    "Log" => event::Scenario::Log(format!("log{}", sc[1].as_u64().unwrap_or(0))),
                    "Hook" => {
                        let ty = if sc[1].as_bool().unwrap_or(true) {
                            event::HookType::Before
                        } else {
                            event::HookType::After
                        };
                        let h = match &sc[2] {
                            Value::String(s) if s == "Started" => event::Hook::Started,
                            Value::String(_) => event::Hook::Passed,
                            f => event::Hook::Failed(Some(Arc::new(EvW)), payload(f[1].as_u64().unwrap_or(0))),
                        };
                        event::Scenario::Hook(ty, h)
                    }
                    "Bg" => {
                        let st = self.step(sc[1].as_u64().unwrap_or(0));
                        let ev = self.step_ev(&sc[2], &st.value);
                        event::Scenario::Background(st, ev)
                    }
                    _ => {
                        let st = self.step(sc[1].as_u64().unwrap_or(0));
                        let ev = self.step_ev(&sc[2], &st.value);
                        event::Scenario::Step(st, ev)
                    }
                };
                let retries = v[4].as_array().map(|a| Retries {
                    current: a[0].as_u64().unwrap_or(0) as usize,
                    left: a[1].as_u64().unwrap_or(0) as usize,
                });
                let rule = if v[2].is_null() { None } else { Some(self.rule(n(2))) };
                Cucumber::scenario(self.feat(n(1)), rule, self.scen(n(3)), e.with_retries(retries))
            }
        };
        let mut e = Event::new(cu);
        e.at = at_of(meta);
        Ok(e)
    }
}

pub fn at_of(meta: u64) -> SystemTime {
    UNIX_EPOCH + Duration::from_micros(meta)
}

pub fn meta_of(at: SystemTime) -> u64 {
    at.duration_since(UNIX_EPOCH).map(|d| d.as_micros() as u64).unwrap_or(u64::MAX)
}

pub fn payload(n: u64) -> event::Info {
    Arc::new(format!("panic#{n}"))
}

thread_local! {
    /// Engines whose scripted payloads have a KIND determined by their number (n % 3: 0 `String`, 1 `&'static str`,
    /// 2 `u32`; numbers from 1000 on are always `String`) switch this on: a payload that arrives with another type than
    /// it was thrown with is not "the payload" any more.
    pub static STRICT_KINDS: std::cell::Cell<bool> = const { std::cell::Cell::new(false) };
}

fn kind_ok(n: u64, kind: u64) -> bool {
    !STRICT_KINDS.with(std::cell::Cell::get) || (n >= 1000 && kind == 0) || (n < 1000 && n % 3 == kind)
}

pub fn payload_id(i: &event::Info) -> Value {
    if let Some(n) = i.downcast_ref::<u32>() {
        return if kind_ok(u64::from(*n), 2) { json!(n) } else { json!("<payload type changed>") };
    }
    if let Some(s) = i.downcast_ref::<String>() {
        if s.starts_with("failed to initialize") {
            if let Some(n) = s.split("werr#").nth(1).and_then(|n| n.parse::<u64>().ok()) {
                return json!(2000 + n);
            }
        }
        if let Some(n) = s.strip_prefix("panic#").and_then(|n| n.parse::<u64>().ok()) {
            return if kind_ok(n, 0) { json!(n) } else { json!("<payload type changed>") };
        }
        return json!(s);
    }
    if let Some(s) = i.downcast_ref::<&str>() {
        if let Some(n) = s.strip_prefix("panic#").and_then(|n| n.parse::<u64>().ok()) {
            return if kind_ok(n, 1) { json!(n) } else { json!("<payload type changed>") };
        }
        return json!(s);
    }
    json!("<opaque>")
}

fn step_json<W>(e: &event::Step<W>) -> Value {
    match e {
        event::Step::Started => json!("Started"),
        event::Step::Passed(..) => json!("Passed"),
        event::Step::Skipped => json!("Skipped"),
        event::Step::Failed(_, _, _, err) => match err {
            event::StepError::NotFound => json!(["Failed", "NotFound"]),
            event::StepError::AmbiguousMatch(_) => json!(["Failed", "Ambiguous"]),
            event::StepError::Panic(i) => json!(["Failed", ["Panic", payload_id(i)]]),
        },
    }
}

pub fn scen_json<W>(e: &event::Scenario<W>) -> Value {
    match e {
        event::Scenario::Started => json!(["Started"]),
        event::Scenario::Finished => json!(["Finished"]),
        event::Scenario::Log(m) => json!([
            "Log",
            m.strip_prefix("log").and_then(|n| n.parse::<u64>().ok()).map_or(json!(m), |n| json!(n))
        ]),
        event::Scenario::Hook(ty, h) => json!([
            "Hook",
            matches!(ty, event::HookType::Before),
            match h {
                event::Hook::Started => json!("Started"),
                event::Hook::Passed => json!("Passed"),
                event::Hook::Failed(_, i) => json!(["Failed", payload_id(i)]),
            }
        ]),
        event::Scenario::Background(s, e) => json!(["Bg", s.position.line, step_json(e)]),
        event::Scenario::Step(s, e) => json!(["Step", s.position.line, step_json(e)]),
    }
}

pub fn cucumber_json<W>(e: &Cucumber<W>) -> Value {
    match e {
        Cucumber::Started => json!(["Started"]),
        Cucumber::Finished => json!(["Finished"]),
        Cucumber::ParsingFinished { features, rules, scenarios, steps, parser_errors } => {
            json!(["ParsingFinished", features, rules, scenarios, steps, parser_errors])
        }
        Cucumber::Feature(f, fe) => {
            let fid = f.position.line;
            let sc = |r: Option<usize>,
                      s: &Source<gherkin::Scenario>,
                      e: &event::RetryableScenario<W>| {
                json!([
                    "Scen",
                    fid,
                    r,
                    s.position.line,
                    e.retries.map(|r| json!([r.current, r.left])),
                    scen_json(&e.event)
                ])
            };
            match fe {
                event::Feature::Started => json!(["FeatS", fid]),
                event::Feature::Finished => json!(["FeatF", fid]),
                event::Feature::Scenario(s, e) => sc(None, s, e),
                event::Feature::Rule(r, re) => match re {
                    event::Rule::Started => json!(["RuleS", fid, r.position.line]),
                    event::Rule::Finished => json!(["RuleF", fid, r.position.line]),
                    event::Rule::Scenario(s, e) => sc(Some(r.position.line), s, e),
                },
            }
        }
    }
}

pub fn ev_json<W>(ev: &parser::Result<Event<Cucumber<W>>>) -> Value {
    match ev {
        Err(parser::Error::ExampleExpansion(e)) => {
            json!({"meta": e.pos.col, "ev": ["ParseErr", e.pos.line]})
        }
        Err(parser::Error::Parsing(e)) => json!({"meta": 0, "ev": ["ParseErr", e.to_string()]}),
        Ok(e) => json!({"meta": meta_of(e.at), "ev": cucumber_json(&e.value)}),
    }
}
