From CV Require Import Model.Base Model.Events Model.Contract Model.Stats Model.StatsSpec Model.Reporters Model.ReportersSpec Model.ReportersSpec2 Model.ReportersSpec3.
From CV Require Proofs.ReportersP4 Proofs.ReportersP5 Proofs.ReportersP6.
Import ListNotations.
Open Scope N_scope.

Definition both (l : list scev) := (junit_status l, attempt_class_spec l, canonical_attempt (l ++ [ScFinished])).

(* only Started, a step started without result *)
Example c1 : both [ScStarted; ScStep 1 StStarted] = (0, 0, false). Proof. vm_compute. reflexivity. Qed.
(* failed after-hook in an otherwise passed attempt *)
Example c2 : both [ScStarted; ScStep 1 StStarted; ScStep 1 StPassed; ScHook false HStarted; ScHook false (HFailed 9)] = (1, 1, true).
Proof. vm_compute. reflexivity. Qed.
(* failed before-hook (after hook runs and passes) *)
Example c3 : both [ScStarted; ScHook true HStarted; ScHook true (HFailed 9); ScHook false HStarted; ScHook false HPassed] = (1, 1, true).
Proof. vm_compute. reflexivity. Qed.
(* skipped step then failed after-hook *)
Example c4 : both [ScStarted; ScStep 1 StStarted; ScStep 1 StSkipped; ScHook false HStarted; ScHook false (HFailed 9)] = (1, 1, true).
Proof. vm_compute. reflexivity. Qed.
(* skipped step then passed after-hook *)
Example c4b : both [ScStarted; ScStep 1 StStarted; ScStep 1 StSkipped; ScHook false HStarted; ScHook false HPassed] = (2, 2, true).
Proof. vm_compute. reflexivity. Qed.
(* step failed but a later event says passed: they differ, list not canonical *)
Example c5 : both [ScStarted; ScStep 1 StStarted; ScStep 1 (StFailed (EPanic 1)); ScStep 2 StStarted; ScStep 2 StPassed] = (0, 1, false).
Proof. vm_compute. reflexivity. Qed.
(* failed step then passed BEFORE hook event (M2 witness): differ, non canonical *)
Example c6 : both [ScStarted; ScStep 1 (StFailed (EPanic 1)); ScHook true HPassed] = (0, 1, false).
Proof. vm_compute. reflexivity. Qed.
(* empty *)
Example c7 : both [] = (0, 0, false). Proof. vm_compute. reflexivity. Qed.
Example c7b : both [ScStarted] = (0, 0, true). Proof. vm_compute. reflexivity. Qed.
(* logs in between, background failing *)
Example c8 : both [ScStarted; ScLog 1; ScBg 5 StStarted; ScLog 2; ScBg 5 (StFailed ENotFound); ScLog 3] = (1, 1, true).
Proof. vm_compute. reflexivity. Qed.
(* skipped step AFTER which another step passes (canonical? no: stop after first Skipped) *)
Example c9 : both [ScStarted; ScStep 1 StStarted; ScStep 1 StSkipped; ScStep 2 StStarted; ScStep 2 StPassed] = (0, 2, false).
Proof. vm_compute. reflexivity. Qed.

(* a run with: skipped scenario, before-hook failure, after-hook failure, retry, path irrelevant, two scenarios in two rules,
   logs, top-level scenario. Raw, interleaved (two attempts open at once). *)
Definition A (f : N) (r : option N) (s : N) (rt : retr) (l : list scev) : list ev := map (EvScen f r s rt) l.
Definition rich_raw : list ev :=
  [EvStarted; EvParsingFinished 1 2 5 9 0; EvFeatS 1; EvRuleS 1 10; EvRuleS 1 11] ++
  A 1 (Some 10) 100 (Some (0,1)) [ScStarted; ScHook true HStarted] ++
  A 1 (Some 11) 110 None [ScStarted; ScStep 2 StStarted; ScStep 2 StSkipped] ++
  A 1 (Some 10) 100 (Some (0,1)) [ScHook true (HFailed 4); ScHook false HStarted; ScHook false HPassed; ScFinished] ++
  A 1 (Some 11) 110 None [ScFinished] ++
  A 1 (Some 10) 100 (Some (1,0)) [ScStarted; ScHook true HStarted; ScHook true HPassed; ScBg 5 StStarted; ScLog 1; ScBg 5 StPassed;
                                   ScStep 1 StStarted; ScStep 1 StPassed; ScHook false HStarted; ScHook false (HFailed 3); ScFinished] ++
  [EvRuleF 1 10; EvRuleF 1 11] ++
  A 1 None 120 None [ScStarted; ScStep 7 StStarted; ScStep 7 (StFailed EAmbiguous); ScFinished] ++
  [EvFeatF 1; EvFinished].
Example rich_hyps :
  contract rich_raw = true /\ retry_consistent rich_raw = true /\ attempts_canonical rich_raw = true /\
  ReportersP5.rule_of_scen_unique rich_raw = true /\ ReportersP5.attempts_bracketed rich_raw = true /\
  forallb (fun o => negb (snd o =? 2)) (attempt_outcomes_spec rich_raw) = false (* K14c: scenario 110 is skipped *).
Proof. vm_compute. repeat split; reflexivity. Qed.
Example rich_classes : attempt_outcomes_spec rich_raw = attempt_outcomes rich_raw /\
  attempt_outcomes_spec rich_raw = [(Some 10, 100, 1); (Some 11, 110, 2); (Some 10, 100, 1); (None, 120, 1)].
Proof. vm_compute. split; reflexivity. Qed.
