From CV Require Import Model.Base Model.Events Model.Contract Model.Stats Model.StatsSpec Model.Reporters Model.ReportersSpec Model.ReportersSpec2 Model.ReportersSpec3.
From CV Require Proofs.ReportersP4 Proofs.ReportersP5 Proofs.ReportersP6.
Import ListNotations.
Open Scope N_scope.

Definition exr := ReportersP4.ex_stream.
(* the three JUnit predicates the Check file conjoins *)
Definition j3 (es : list ev) (d : list rf) :=
  c14_junit_ok es d && c14_junit_attr_ok es d && (negb (attempts_canonical es) || c14_junit_ok3 es d).

Example exr_canonical : attempts_canonical exr = true. Proof. vm_compute. reflexivity. Qed.
Example model_ok : j3 exr (junit_doc exr) = true. Proof. vm_compute. reflexivity. Qed.

(* A. the parser error reported as a SUCCESSFUL testcase (status 0), in a suite "Errors" with a fancy id: ACCEPTED.
      (the status of an Errors testcase is read by no predicate) *)
Example parse_error_as_success_accepted :
  j3 exr
    [RSuite true 55; RCase (Some 3) 7 0;
     RSuite false 1; RCase (Some 10) 100 1; RLScenario 100 None; RLStep 2 false 1;
     RCase (Some 10) 100 0; RLScenario 100 (Some (1, 1)); RLStep 1 true 5; RLStep 1 false 1;
     RCase None 101 1; RLScenario 101 None; RLStep 1 false 2; RLHookFailed false 101;
     RSuite false 2; RCase None 200 0; RLScenario 200 None; RLStep 1 false 3] = true.
Proof. vm_compute. reflexivity. Qed.

(* B. lines of a listing in the wrong order (hook failure first, steps reversed), suites and testcases reordered: ACCEPTED *)
Example order_accepted :
  j3 exr
    [RSuite false 2; RCase None 200 0; RLScenario 200 None; RLStep 1 false 3;
     RSuite false 1; 
     RCase None 101 1; RLScenario 101 None; RLHookFailed false 101; RLStep 1 false 2; 
     RCase (Some 10) 100 0; RLScenario 100 (Some (1, 1)); RLStep 1 false 1; RLStep 1 true 5; 
     RCase (Some 10) 100 1; RLScenario 100 None; RLStep 2 false 1;
     RSuite true 0; RCase None 7 1] = true.
Proof. vm_compute. reflexivity. Qed.

(* C. swapped attempts / wrong suite / RSuite 99 : rejected (as in ReportersP6) *)
Example swapped_status_rejected :
  j3 exr
    [RSuite true 0; RCase None 7 1;
     RSuite false 1; RCase (Some 10) 100 0; RLScenario 100 None; RLStep 2 false 1;
     RCase (Some 10) 100 1; RLScenario 100 (Some (1, 1)); RLStep 1 true 5; RLStep 1 false 1;
     RCase None 101 1; RLScenario 101 None; RLStep 1 false 2; RLHookFailed false 101;
     RSuite false 2; RCase None 200 0; RLScenario 200 None; RLStep 1 false 3] = false.
Proof. vm_compute. reflexivity. Qed.

(* D. an invented EMPTY Errors suite and a feature testcase duplicated INSIDE an Errors suite?? *)
Example junk_in_errors_suite :
  c14_junit_attr_ok exr
    [RSuite true 0; RCase None 7 1; RSuite true 0;
     RSuite false 1; RCase (Some 10) 100 1; RLScenario 100 None; RLStep 2 false 1;
     RCase (Some 10) 100 0; RLScenario 100 (Some (1, 1)); RLStep 1 true 5; RLStep 1 false 1;
     RCase None 101 1; RLScenario 101 None; RLStep 1 false 2; RLHookFailed false 101;
     RSuite false 2; RCase None 200 0; RLScenario 200 None; RLStep 1 false 3] = true.
Proof. vm_compute. reflexivity. Qed.

(* E. K14c: a run with ONE skipped scenario next to a wrongly attributed one. The model's own output fails all predicates *)
Definition exs : list ev :=
  [EvStarted; EvFeatS 1;
   EvScen 1 None 2 None ScStarted; EvScen 1 None 2 None (ScStep 3 StStarted); EvScen 1 None 2 None (ScStep 3 StSkipped); EvScen 1 None 2 None ScFinished;
   EvScen 1 None 4 None ScStarted; EvScen 1 None 4 None (ScStep 5 StStarted); EvScen 1 None 4 None (ScStep 5 StPassed); EvScen 1 None 4 None ScFinished;
   EvFeatF 1; EvFinished].
Example exs_norm : normalized exs = true /\ attempts_canonical exs = true. Proof. vm_compute. split; reflexivity. Qed.
Example exs_model_rejected : c14_junit_ok exs (junit_doc exs) = false /\ c14_junit_attr_ok exs (junit_doc exs) = false /\ c14_junit_ok3 exs (junit_doc exs) = false.
Proof. vm_compute. repeat split; reflexivity. Qed.
