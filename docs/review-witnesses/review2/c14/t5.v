From CV Require Import Model.Base Model.Events Model.Contract Model.Normalize Model.Stats Model.StatsSpec Model.Reporters Model.ReportersSpec Model.ReportersSpec2 Model.ReportersSpec3 Check.Verdict Check.C14Check.
Import ListNotations.
Open Scope N_scope.

Definition A (f : N) (r : option N) (s : N) (rt : retr) (l : list scev) : list ev := map (EvScen f r s rt) l.
Fixpoint number (n : N) (l : list ev) : list mev := match l with [] => [] | e :: t => (n, e) :: number (n + 1) t end.

(* ordinary run, no skipped scenario: parser error mid-way, interleaved attempts, before-hook failure, retry, after-hook failure,
   background step, logs, two rules, top-level scenario running while a rule is open, second feature *)
Definition raw1 : list ev :=
  [EvStarted; EvFeatS 1; EvParseErr 7; EvParsingFinished 2 2 4 9 1; EvRuleS 1 10; EvRuleS 1 11; EvFeatS 2] ++
  A 1 (Some 10) 100 (Some (0,1)) [ScStarted; ScHook true HStarted] ++
  A 1 None 120 None [ScStarted; ScStep 7 StStarted] ++
  A 1 (Some 11) 110 None [ScStarted; ScStep 2 StStarted; ScStep 2 StPassed] ++
  A 1 (Some 10) 100 (Some (0,1)) [ScHook true (HFailed 4); ScHook false HStarted; ScHook false HPassed; ScFinished] ++
  A 2 None 200 None [ScStarted; ScStep 7 StStarted; ScStep 7 StPassed; ScStep 8 StStarted ] ++
  A 1 (Some 11) 110 None [ScFinished] ++
  A 1 (Some 10) 100 (Some (1,0)) [ScStarted; ScHook true HStarted; ScHook true HPassed; ScBg 5 StStarted; ScLog 1; ScBg 5 StPassed;
                                   ScStep 1 StStarted; ScStep 1 StPassed; ScHook false HStarted; ScHook false (HFailed 3); ScFinished] ++
  A 2 None 200 None [ScStep 8 (StFailed ENotFound); ScFinished] ++
  [EvRuleF 1 10; EvRuleF 1 11] ++
  A 1 None 120 None [ScStep 7 (StFailed EAmbiguous); ScFinished] ++
  [EvFeatF 2; EvFeatF 1; EvFinished].
Definition mk (w : N) (pl : list N) (raw : list ev) (rep : option (list rf)) : rcase14 :=
  let c0 := mk_rcase14 pl (number 0 raw) w true true false [] in
  mk_rcase14 pl (number 0 raw) w true true false (match rep with Some r => r | None => model_report c0 end).

Example raw1_contract : contract raw1 = true /\ retry_consistent raw1 = true. Proof. vm_compute. split; reflexivity. Qed.
(* model output accepted for all four writers; the theorem hypotheses hold *)
Example v_all :
  verdict 1 (mk 0 [] raw1 None) = [[1;1;0;0];[1;90;0;1]] /\
  verdict 1 (mk 1 [] raw1 None) = [[1;1;0;0];[1;90;0;1]] /\
  verdict 1 (mk 2 [] raw1 None) = [[1;1;0;0];[1;90;0;1]] /\
  verdict 1 (mk 3 [] raw1 None) = [[1;1;0;0];[1;90;0;1]].
Proof. vm_compute. repeat split; reflexivity. Qed.
(* path-less feature 2: junit and basic unaffected, libtest / json known classes *)
Example v_pathless :
  verdict 1 (mk 0 [2] raw1 None) = [[1;1;2;1];[1;90;0;0]] /\
  verdict 1 (mk 1 [2] raw1 None) = [[1;1;2;2];[1;90;0;0]] /\
  verdict 1 (mk 2 [2] raw1 None) = [[1;1;0;0];[1;90;0;1]] /\
  verdict 1 (mk 3 [2] raw1 None) = [[1;1;0;0];[1;90;0;1]].
Proof. vm_compute. repeat split; reflexivity. Qed.
Eval vm_compute in model_report (mk 3 [] raw1 None).
Eval vm_compute in model_report (mk 2 [] raw1 None).

(* too weak at Check level: invented rule line + invented feature line + scrambled order satisfy c14_ok;
   only the literal comparison with the model output flags it (code 3) *)
Definition bad_basic : list rf :=
  [RLFeature 2; RLRule 77; RLScenario 200 None; RLStep 1 false 7; RLStep 2 false 8; RLFeature 99;
   RLFeature 1; RLParseErr; RLRule 10; RLScenario 100 (Some (1, 9)); RLStep 1 true 5; RLStep 1 false 1; RLHookFailed false 100;
   RLScenario 100 None; RLHookFailed true 100;
   RLRule 11; RLScenario 120 None; RLStep 2 false 7; RLScenario 110 None; RLStep 1 false 2].
Example bad_basic_ok : c14_ok (mk 3 [] raw1 (Some bad_basic)) = true /\ verdict 1 (mk 3 [] raw1 (Some bad_basic)) = [[1;1;3;0];[1;90;0;1]].
Proof. vm_compute. split; reflexivity. Qed.

(* a run observed before run-Finished (contract_prefix only: the verdict does judge it) *)
Definition raw_cut := firstn (length raw1 - 3) raw1.
Example cut_prefix : contract_prefix raw_cut = true /\ contract raw_cut = false. Proof. vm_compute. split; reflexivity. Qed.
Eval vm_compute in (verdict 1 (mk 3 [] raw_cut None), verdict 1 (mk 2 [] raw_cut None), verdict 1 (mk 1 [] raw_cut None), verdict 1 (mk 0 [] raw_cut None)).
Eval vm_compute in model_report (mk 3 [] raw_cut None).
Example cut_which : let c := mk 3 [] raw_cut None in
  c14_basic_ok (map snd (r_events c)) (r_report c) = false /\ c14_basic_attr_ok (map snd (r_events c)) (r_report c) = false.
Proof. vm_compute. split; reflexivity. Qed.
From CV Require Proofs.ReportersP5.
Example raw1_junit_hyps : attempts_canonical raw1 = true /\ ReportersP5.rule_of_scen_unique raw1 = true /\
  forallb (fun o => negb (snd o =? 2)) (attempt_outcomes_spec raw1) = true /\ ReportersP5.attempts_bracketed raw1 = true.
Proof. vm_compute. repeat split; reflexivity. Qed.
(* JUnit at Check level: the parser error shown as a SUCCESSFUL testcase, listings' lines reordered: monitor true *)
Definition bad_junit : list rf :=
  [RSuite true 0; RCase None 7 0; RSuite false 1; 
   RCase (Some 10) 100 1; RLScenario 100 None; RLHookFailed true 100;
   RCase (Some 10) 100 1; RLScenario 100 (Some (1, 1)); RLHookFailed false 100; RLStep 1 false 1; RLStep 1 true 5; 
   RCase (Some 11) 110 0; RLScenario 110 None; RLStep 1 false 2; RCase None 120 1; RLScenario 120 None;
   RLStep 2 false 7; RSuite false 2; RCase None 200 1; RLScenario 200 None; RLStep 2 false 8; RLStep 1 false 7].
Example bad_junit_ok : c14_ok (mk 2 [] raw1 (Some bad_junit)) = true. Proof. vm_compute. reflexivity. Qed.
(* JSON at Check level: hooks moved into the background element, invented empty feature: monitor true *)
Eval vm_compute in model_report (mk 1 [] raw1 None).
