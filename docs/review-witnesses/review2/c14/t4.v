From CV Require Import Model.Base Model.Events Model.Contract Model.Stats Model.StatsSpec Model.Reporters Model.ReportersSpec Model.ReportersSpec2 Model.ReportersSpec3.
From CV Require Proofs.ReportersP2.
Import ListNotations.
Open Scope N_scope.

Definition hp (_ : N) := true.
Definition A (f : N) (r : option N) (s : N) (rt : retr) (l : list scev) : list ev := map (EvScen f r s rt) l.
(* feature 1: scenario 3 (rule 10) with background step 5, own step 1 PANICS, before hook passed, after hook failed;
   scenario 4: step 2 undefined (ENotFound) *)
Definition es : list ev :=
  [EvStarted; EvFeatS 1; EvRuleS 1 10] ++
  A 1 (Some 10) 3 None [ScStarted; ScHook true HStarted; ScHook true HPassed; ScBg 5 StStarted; ScBg 5 StPassed;
                        ScStep 1 StStarted; ScStep 1 (StFailed (EPanic 0)); ScHook false HStarted; ScHook false (HFailed 2); ScFinished] ++
  [EvRuleF 1 10] ++
  A 1 None 4 None [ScStarted; ScStep 2 StStarted; ScStep 2 (StFailed ENotFound); ScFinished] ++
  [EvFeatF 1; EvFinished].
Example es_hyp : normalized es = true /\ ReportersP2.fids_nonzero es = true /\ ReportersP2.fids_have_path hp es = true.
Proof. vm_compute. repeat split; reflexivity. Qed.
Definition good := json_doc hp es.
Example good_is : good =
  [RJFeature true 1; RJElement (Some 10) 3 0; RJHook true 0; RJStep 1 1; RJHook false 1;
   RJElement (Some 10) 3 1; RJStep 5 0; RJElement None 4 0; RJStep 2 3].
Proof. vm_compute. reflexivity. Qed.
Definition jboth d := (c14_json_ok es d, c14_json_ok2 es d).
Example good_ok : jboth good = (true, true). Proof. vm_compute. reflexivity. Qed.

(* H4 witness: panicked step shown "ambiguous" plus two passed hooks that never ran: old accepts, new rejects *)
Example h4_json :
  jboth [RJFeature true 1; RJElement (Some 10) 3 0; RJHook true 0; RJHook true 0; RJStep 1 4; RJHook false 1; RJHook false 0;
         RJElement (Some 10) 3 1; RJStep 5 0; RJElement None 4 0; RJStep 2 3] = (true, false).
Proof. vm_compute. reflexivity. Qed.
(* each single status confusion is rejected by the new predicate *)
Example st_confusions :
  snd (jboth [RJFeature true 1; RJElement (Some 10) 3 0; RJHook true 0; RJStep 1 3; RJHook false 1;
         RJElement (Some 10) 3 1; RJStep 5 0; RJElement None 4 0; RJStep 2 3]) = false /\
  snd (jboth [RJFeature true 1; RJElement (Some 10) 3 0; RJHook true 0; RJStep 1 1; RJHook false 1;
         RJElement (Some 10) 3 1; RJStep 5 0; RJElement None 4 0; RJStep 2 1]) = false /\
  (* failed hook shown with status 3 *)
  snd (jboth [RJFeature true 1; RJElement (Some 10) 3 0; RJHook true 0; RJStep 1 1; RJHook false 3;
         RJElement (Some 10) 3 1; RJStep 5 0; RJElement None 4 0; RJStep 2 3]) = false /\
  (* before/after flag swapped *)
  snd (jboth [RJFeature true 1; RJElement (Some 10) 3 0; RJHook false 0; RJStep 1 1; RJHook true 1;
         RJElement (Some 10) 3 1; RJStep 5 0; RJElement None 4 0; RJStep 2 3]) = false.
Proof. vm_compute. repeat split; reflexivity. Qed.

(* still accepted: (a) both hooks listed inside the BACKGROUND element instead of the scenario element, after the steps;
   (b) invented empty feature 99 and an invented empty element of scenario 77 *)
Example hooks_in_background_accepted :
  jboth [RJFeature true 1; RJElement (Some 10) 3 0; RJStep 1 1; 
         RJElement (Some 10) 3 1; RJStep 5 0; RJHook false 1; RJHook true 0; RJElement None 4 0; RJStep 2 3] = (true, true).
Proof. vm_compute. reflexivity. Qed.
Example invented_empty_containers_accepted :
  jboth [RJFeature true 99; RJElement None 77 0; RJFeature true 1; RJElement (Some 10) 3 0; RJHook true 0; RJStep 1 1; RJHook false 1;
         RJElement (Some 10) 3 1; RJStep 5 0; RJElement None 4 0; RJStep 2 3; RJElement (Some 12) 3 0] = (true, true).
Proof. vm_compute. reflexivity. Qed.
(* has_uri flag is read by nobody: feature with a path shown without uri *)
Example uri_flag_unread :
  jboth [RJFeature false 1; RJElement (Some 10) 3 0; RJHook true 0; RJStep 1 1; RJHook false 1;
         RJElement (Some 10) 3 1; RJStep 5 0; RJElement None 4 0; RJStep 2 3] = (true, true).
Proof. vm_compute. reflexivity. Qed.
(* parser error: stream with a parse error; document shows it with status 0 (passed): rejected by new *)
Definition esp := EvParseErr 7 :: es.
Example perr : c14_json_ok2 esp (json_doc hp esp) = true /\
  c14_json_ok2 esp ([RJFeature false 0; RJElement None 0 0; RJStep 7 0] ++ good) = false /\
  c14_json_ok esp ([RJFeature false 0; RJElement None 0 0; RJStep 7 0] ++ good) = true.
Proof. vm_compute. repeat split; reflexivity. Qed.
