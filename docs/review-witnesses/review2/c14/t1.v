From CV Require Import Model.Base Model.Events Model.Contract Model.Stats Model.StatsSpec Model.Reporters Model.ReportersSpec Model.ReportersSpec2 Model.ReportersSpec3.
From CV Require Proofs.ReportersP4 Proofs.ReportersP6.
Import ListNotations.
Open Scope N_scope.

Definition ex_w := ReportersP6.ex_w.
Definition both (es : list ev) (d : list rf) := c14_basic_ok es d && c14_basic_attr_ok es d.

(* 0. the H4 witness as given: rejected *)
Example h4_rejected : both ex_w [RLFeature 2; RLRule 77; RLScenario 3 None; RLStep 1 false 1; RLFeature 1; RLScenario 4 None; RLStep 2 false 1] = false.
Proof. vm_compute. reflexivity. Qed.

(* 1. only the invented rule line (features right): ACCEPTED *)
Example invented_rule_accepted :
  both ex_w [RLFeature 1; RLRule 77; RLScenario 3 None; RLStep 1 false 1; RLFeature 2; RLScenario 4 None; RLStep 2 false 1] = true.
Proof. vm_compute. reflexivity. Qed.

(* 2. an invented feature line (feature 99 never ran), a repeated feature line, a rule line before any feature: ACCEPTED *)
Example invented_feature_accepted :
  both ex_w [RLRule 5; RLFeature 1; RLScenario 3 None; RLStep 1 false 1; RLFeature 99; RLRule 6; RLFeature 2; RLFeature 2; RLScenario 4 None; RLStep 2 false 1; RLFeature 98] = true.
Proof. vm_compute. reflexivity. Qed.

(* rich stream: feature 1: rule 10 {scenario 100 (2 attempts)}, top-level 101; feature 2: 200 *)
Definition exr := ReportersP4.ex_stream.
Definition good := basic_lines exr.
Example good_ok : both exr good = true. Proof. vm_compute. reflexivity. Qed.

(* 3. rule line of rule 10 attributed to wrong feature as well (extra "Rule: 10" under feature 2 above top-level scenario 200): ACCEPTED *)
Example rule_under_wrong_feature_accepted :
  both exr
    [RLParseErr; RLFeature 1; RLRule 10; RLScenario 100 None; RLStep 2 false 1; RLScenario 100 (Some (1, 1));
     RLStep 1 true 5; RLStep 1 false 1; RLScenario 101 None; RLStep 1 false 2; RLHookFailed false 101;
     RLFeature 2; RLRule 10; RLScenario 200 None; RLStep 1 false 3] = true.
Proof. vm_compute. reflexivity. Qed.

(* 4. the real rule line is missing where it belongs? scenario of a rule printed outside its rule: rejected *)
Example scen_outside_rule_rejected :
  both exr
    [RLParseErr; RLFeature 1; RLScenario 100 None; RLStep 2 false 1; RLRule 10; RLScenario 100 (Some (1, 1));
     RLStep 1 true 5; RLStep 1 false 1; RLScenario 101 None; RLStep 1 false 2; RLHookFailed false 101;
     RLFeature 2; RLScenario 200 None; RLStep 1 false 3] = false.
Proof. vm_compute. reflexivity. Qed.

(* 5. step line placed under another scenario's header: rejected *)
Example step_under_other_header_rejected :
  both exr
    [RLParseErr; RLFeature 1; RLRule 10; RLScenario 100 None; RLScenario 100 (Some (1, 1));
     RLStep 1 true 5; RLStep 1 false 1; RLScenario 101 None; RLStep 2 false 1; RLStep 1 false 2; RLHookFailed false 101;
     RLFeature 2; RLScenario 200 None; RLStep 1 false 3] = false.
Proof. vm_compute. reflexivity. Qed.

(* 6. retried attempts' lines under the wrong attempt header: rejected *)
Example attempt_swapped_rejected :
  both exr
    [RLParseErr; RLFeature 1; RLRule 10; RLScenario 100 None; RLStep 1 true 5; RLStep 1 false 1; RLScenario 100 (Some (1, 1));
     RLStep 2 false 1; RLScenario 101 None; RLStep 1 false 2; RLHookFailed false 101;
     RLFeature 2; RLScenario 200 None; RLStep 1 false 3] = false.
Proof. vm_compute. reflexivity. Qed.

(* 7. the retry total in the header is not read: "retry 1/99" ACCEPTED (stream says 1 of 1) *)
Example retry_total_unread :
  both exr
    [RLParseErr; RLFeature 1; RLRule 10; RLScenario 100 None; RLStep 2 false 1; RLScenario 100 (Some (1, 99));
     RLStep 1 true 5; RLStep 1 false 1; RLScenario 101 None; RLStep 1 false 2; RLHookFailed false 101;
     RLFeature 2; RLScenario 200 None; RLStep 1 false 3] = true.
Proof. vm_compute. reflexivity. Qed.

(* 8. top-level scenario 101 printed INSIDE rule 10, between the two attempts of 100; and the whole order scrambled
      (feature 2 first, parse error last, attempt 1 before attempt 0): ACCEPTED (multiset, rule sub-multiset) *)
Example order_scrambled_accepted :
  both exr
    [RLFeature 2; RLScenario 200 None; RLStep 1 false 3;
     RLFeature 1; RLRule 10; RLScenario 100 (Some (1, 1)); RLStep 1 false 1; RLStep 1 true 5;
     RLScenario 101 None; RLHookFailed false 101; RLStep 1 false 2; 
     RLScenario 100 None; RLStep 2 false 1; RLParseErr] = true.
Proof. vm_compute. reflexivity. Qed.

(* 9. two rules: stream with rule 10 {100} and rule 11 {110}; doc prints rule 11's line twice and 10's once: each scenario under its rule OK.
      A rule with NO line at all but whose scenarios are printed under the other... rejected. A missing rule line for a rule => rejected (good).
      But an EXISTING rule's line may be missing if all its scenarios... n/a *)
Definition two_rules : list ev :=
  [EvStarted; EvFeatS 1; EvRuleS 1 10;
   EvScen 1 (Some 10) 100 None ScStarted; EvScen 1 (Some 10) 100 None (ScStep 1 StStarted); EvScen 1 (Some 10) 100 None (ScStep 1 StPassed); EvScen 1 (Some 10) 100 None ScFinished;
   EvRuleF 1 10; EvRuleS 1 11;
   EvScen 1 (Some 11) 110 None ScStarted; EvScen 1 (Some 11) 110 None (ScStep 2 StStarted); EvScen 1 (Some 11) 110 None (ScStep 2 StSkipped); EvScen 1 (Some 11) 110 None ScFinished;
   EvRuleF 1 11; EvFeatF 1; EvFinished].
Example two_rules_norm : normalized two_rules = true. Proof. vm_compute. reflexivity. Qed.
Example two_rules_model_ok : both two_rules (basic_lines two_rules) = true. Proof. vm_compute. reflexivity. Qed.
Example two_rules_swapped_rejected :
  both two_rules [RLFeature 1; RLRule 11; RLScenario 100 None; RLStep 1 false 1; RLRule 10; RLScenario 110 None; RLStep 3 false 2] = false.
Proof. vm_compute. reflexivity. Qed.

(* 10. parser errors carry no id in the terminal facts: vocabulary RLParseErr has no id. Two errors vs. doc with two lines: only the count. *)
