From CV Require Import Model.Base Model.Outline Proofs.BaseP Proofs.OutlineP Proofs.OutlineP2.
Import OutlineP2.Examples.
(* the H1 wrong expander: substitutes the name, copies the steps *)
Definition instantiate_bad (sc : oscen) (ex : example) (id : N) (r : row) : oscen + xerr :=
  match subst_at r (ex_line ex + (id+2)) (ex_col ex) (o_name sc) with
  | inr e => inr e
  | inl name => inl (mk_oscen name (o_tags sc ++ ex_tags ex) (o_steps sc) (o_examples sc) (ex_line ex + (id+2)) (ex_col ex))
  end.
Definition r1 := combine [lit "n"; lit "what"] [lit "1"; lit "x"].
(* it no longer satisfies the verbatim conclusion of C16_instantiated_row / closed form *)
Goal exists sc', instantiate_bad sc ex1 0 r1 = inl sc' /\ sc' <> inst_out sc ex1 0 r1.
Proof. eexists. split. vm_compute. reflexivity. vm_compute. discriminate. Qed.
Goal exists sc', instantiate_bad sc ex1 0 r1 = inl sc' /\ ~ Forall2 (step_inst r1) (o_steps sc) (o_steps sc').
Proof. eexists. split. vm_compute. reflexivity. intro H. inversion H as [|a b l l' Hs _]; subst.
 destruct Hs as [Hs _]. vm_compute in Hs. discriminate. Qed.
(* short data row: combine truncates, the missing column is then an 'unknown placeholder' error *)
Definition exs := mk_example 12 4 [] (Some [[lit "n"; lit "what"]; [lit "1"]]).
Definition scs := mk_oscen (lit "eat <what>") [] [] [exs] 3 2.
Eval vm_compute in expand_list [scs].
(* duplicate column: first wins *)
Definition exd := mk_example 12 4 [] (Some [[lit "n"; lit "n"]; [lit "1"; lit "2"]]).
Definition scd := mk_oscen (lit "eat <n>") [] [] [exd] 3 2.
Eval vm_compute in expand_list [scd].
(* distinct positions: two tables whose ex_line are adjacent produce the same o_line; nothing in the new theorems prevents it (layout_ok is still only on table_lines) *)
Definition exa := mk_example 12 4 [] (Some [[lit "n"]; [lit "1"]; [lit "2"]]).
Definition exb := mk_example 13 4 [] (Some [[lit "n"]; [lit "3"]]).
Definition scp := mk_oscen (lit "eat <n>") [] [] [exa; exb] 3 2.
Eval vm_compute in (match expand_list [scp] with inl l => map (fun s => (o_line s, o_col s)) l | _ => [] end).
