From CV Require Import Model.Base Model.Events Model.Contract Model.Sched Model.SchedSpec Check.SchedCheck Proofs.FramingP.
Import ListNotations.
Open Scope N_scope.

Definition T (l : list hrec) : hist := map (fun r => (r, 0)) l.
Definition f1 := mk_sfeature 1 [mk_sscen 11 None false None] 0 2.
Definition f2 := mk_sfeature 2 [mk_sscen 21 None false None] 0 2.
Definition S (f s : N) := HEv (EvScen f None s None ScStarted).
Definition F (f s : N) := HEv (EvScen f None s None ScFinished).
Definition X (f s : N) := HEv (EvScen f None s None (ScStep 1 (StFailed (EPanic 0)))).
Definition case (k : nat) (ff : bool) items h term := mk_sdcase (Some k) None ff false items (T h) term false.
Definition all (c : sdcase) :=
  (c03_ok (sd_items c) (sd_history c) (sd_terminated c),
   c03_complete_ok (effective_ff c) (sd_items c) (sd_history c),
   framing_mon c, mon03 c, same_as_model c).

(* ---- L3 witness of the first review ---- *)
Definition l3_items := [IError 1; IError 2; IFeature f1].
Definition l3_h := [HEv EvStarted; HEv (EvParseErr 1); HEv (EvParsingFinished 0 0 0 0 1); HTop 0; HEv EvFinished].
Eval vm_compute in all (case 2 false l3_items l3_h true).   (* want mon03 = false *)
Eval vm_compute in all (case 2 true  l3_items l3_h true).   (* fail-fast: legitimately true *)
(* same, not (yet) terminated: PF already out, so ingestion is over, yet nothing flags the drop *)
Eval vm_compute in all (case 2 false l3_items [HEv EvStarted; HEv (EvParseErr 1); HEv (EvParsingFinished 0 0 0 0 1)] false).

(* ---- legit: lazy parser, error and 2nd feature arrive while a scenario runs, PF after scenario events ---- *)
Definition lazy_items := [IFeature f1; IError 7; IFeature f2].
Definition lazy_h := [HFeat; HTop 1; HEv EvStarted; HEv (EvFeatS 1); S 1 11; HEv (EvParseErr 7); HFeat; F 1 11;
   HTop 1; HEv (EvFeatF 1); HEv (EvFeatS 2); S 2 21; HEv (EvParsingFinished 2 0 2 4 1); F 2 21; HTop 0; HEv (EvFeatF 2); HEv EvFinished].
Eval vm_compute in all (case 2 false lazy_items lazy_h true).
(* same input under fail-fast: stops at the error *)
Definition ffp_h := [HFeat; HTop 1; HEv EvStarted; HEv (EvFeatS 1); S 1 11; HEv (EvParseErr 7); HEv (EvParsingFinished 1 0 1 2 1); F 1 11;
   HTop 0; HEv (EvFeatF 1); HEv EvFinished].
Eval vm_compute in all (case 2 true lazy_items ffp_h true).
(* WRONG under fail-fast: f2 ingested after the error *)
Definition ffp_bad := [HFeat; HTop 1; HEv EvStarted; HEv (EvFeatS 1); S 1 11; HEv (EvParseErr 7); HFeat; HEv (EvParsingFinished 2 0 2 4 1); F 1 11;
   HTop 1; HEv (EvFeatF 1); HEv (EvFeatS 2); S 2 21; F 2 21; HTop 0; HEv (EvFeatF 2); HEv EvFinished].
Eval vm_compute in (all (case 2 true lazy_items ffp_bad true), mon08 (case 2 true lazy_items ffp_bad true)).

(* ---- legit: fail-fast cut by a failing scenario, K=1: 12 and feature 2 never start, bracket 1 closed at the end ---- *)
Definition fA := mk_sfeature 1 [mk_sscen 11 None false None; mk_sscen 12 None false None] 0 4.
Definition cut_items := [IFeature fA; IFeature f2].
Definition cut_h := [HFeat; HFeat; HEv (EvParsingFinished 2 0 3 6 0); HTop 1; HEv EvStarted; HEv (EvFeatS 1); S 1 11; X 1 11; F 1 11;
   HTop 0; HEv (EvFeatF 1); HEv EvFinished].
Eval vm_compute in all (case 1 true cut_items cut_h true).

(* ---- legit: feature with no scenario and one empty rule; nothing to run ---- *)
Definition f0 := mk_sfeature 3 [] 1 0.
Eval vm_compute in all (case 2 false [IFeature f0] [HFeat; HEv (EvParsingFinished 1 1 0 0 0); HTop 0; HEv EvStarted; HEv EvFinished] true).

(* ---- legit: retry keeps the bracket open (scenario 11: 1 retry, fails then passes), rule scenario 12 ---- *)
Definition fr := mk_sfeature 1 [mk_sscen 11 None false (Some (1, None)); mk_sscen 12 (Some 5) false None] 1 3.
Definition rt0 : retr := Some (0, 1). Definition rt1 : retr := Some (1, 0).
Definition retry_h := [HFeat; HTop 2; HEv EvStarted; HEv (EvFeatS 1); HEv (EvRuleS 1 5);
  HEv (EvScen 1 None 11 rt0 ScStarted); HEv (EvScen 1 (Some 5) 12 None ScStarted);
  HEv (EvScen 1 None 11 rt0 (ScStep 7 (StFailed (EPanic 0)))); HEv (EvScen 1 None 11 rt0 ScFinished);
  HEv (EvParsingFinished 1 1 2 3 0); HTop 0; HEv (EvScen 1 (Some 5) 12 None ScFinished); HTop 1; HEv (EvRuleF 1 5);
  HEv (EvScen 1 None 11 rt1 ScStarted); HEv (EvScen 1 None 11 rt1 ScFinished); HTop 0; HEv (EvFeatF 1); HEv EvFinished].
Eval vm_compute in all (case 2 false [IFeature fr] retry_h true).

(* ---- incomplete observation cut between Feature Started and the first Scenario Started ---- *)
Eval vm_compute in all (case 2 false [IFeature f1] [HFeat; HTop 1; HEv EvStarted; HEv (EvFeatS 1)] false).
Eval vm_compute in all (case 2 false [IFeature f1] [HFeat; HTop 1; HEv EvStarted; HEv (EvFeatS 1); S 1 11] false).

(* ---- same feature delivered twice, same ids ---- *)
Definition dup_h := [HFeat; HFeat; HEv (EvParsingFinished 2 0 2 4 0); HTop 2; HEv EvStarted; HEv (EvFeatS 1); S 1 11; S 1 11].
Eval vm_compute in all (case 2 false [IFeature f1; IFeature f1] dup_h false).
