From CV Require Import Model.Base Model.Events Model.Contract Model.Sched Model.SchedSpec Check.SchedCheck Proofs.FramingP.
Import ListNotations.
Open Scope N_scope.

(* the parser-error half of `inputs_ok` inside `framing_mon` compares the observed errors with themselves *)
Lemma circular : forall h feats failed, perrs_of (labels_of feats failed h) = perrs_tr (events_of h).
Proof.
  induction h as [|[r t] h IH]; intros feats failed; [reflexivity|].
  unfold events_of, perrs_tr, perrs_of in *. cbn [flat_map labels_of fst].
  destruct r as [b| |e| |s|d|x s k| |]; cbn [flat_map app]; try apply IH.
  - destruct feats; cbn [flat_map app]; apply IH.
  - destruct e; cbn [flat_map app]; try apply IH.
    + f_equal. apply IH.
    + destruct e; cbn [flat_map app]; apply IH.
Qed.
Lemma framing_mon_errs_vacuous c :
  list_eqb N.eqb (perrs_tr (events_of (sd_history c)))
                 (perrs_of (labels_of (feature_items (sd_items c)) [] (sd_history c))) = true.
Proof.
  rewrite circular. generalize (perrs_tr (events_of (sd_history c))). induction l; cbn; [reflexivity|].
  rewrite N.eqb_refl. exact IHl.
Qed.

Definition T (l : list hrec) : hist := map (fun r => (r, 0)) l.
(* c03_complete_ok's comment "exactly one ParsingFinished, after every parser error": position not looked at *)
Definition items2 := [IError 1; IError 2].
Definition h2 := T [HEv EvStarted; HEv (EvParseErr 1); HEv (EvParsingFinished 0 0 0 0 2); HEv (EvParseErr 2); HTop 0; HEv EvFinished].
Definition c2 := mk_sdcase (Some 2%nat) None false false items2 h2 true false.
Example late_error : (c03_ok items2 h2 true, c03_complete_ok false items2 h2, framing_mon c2, mon03 c2) = (true, true, false, false).
Proof. vm_compute. reflexivity. Qed.

(* the L3 witness: only c03_complete_ok sees it; framing_mon and c03_ok accept *)
Definition f1 := mk_sfeature 1 [mk_sscen 11 None false None] 0 2.
Definition l3_items := [IError 1; IError 2; IFeature f1].
Definition l3_h := T [HEv EvStarted; HEv (EvParseErr 1); HEv (EvParsingFinished 0 0 0 0 1); HTop 0; HEv EvFinished].
Definition l3 ff term h := mk_sdcase (Some 2%nat) None ff false l3_items h term false.
Example l3_now_rejected :
  (c03_ok l3_items l3_h true, c03_complete_ok false l3_items l3_h, framing_mon (l3 false true l3_h), mon03 (l3 false true l3_h))
  = (true, false, true, false).
Proof. vm_compute. reflexivity. Qed.
Example l3_failfast_accepted : mon03 (l3 true true l3_h) = true.
Proof. vm_compute. reflexivity. Qed.
(* ... but the same drop observed before run-Finished (ParsingFinished already out, so ingestion is over) passes *)
Example l3_unterminated_accepted :
  mon03 (l3 false false (T [HEv EvStarted; HEv (EvParseErr 1); HEv (EvParsingFinished 0 0 0 0 1)])) = true.
Proof. vm_compute. reflexivity. Qed.

(* a prefix of a run OF THE MODEL (replays, same stream) is a false alarm of mon03 when not terminated *)
Definition pre := mk_sdcase (Some 2%nat) None false false [IFeature f1] (T [HFeat; HTop 1; HEv EvStarted; HEv (EvFeatS 1)]) false false.
Example prefix_false_alarm :
  (same_as_model pre, c03_ok (sd_items pre) (sd_history pre) false, framing_mon pre, mon03 pre) = (true, false, true, false)
  /\ exec (mk_cfg (Some 2%nat) false) [LFeature f1; LTop] <> None.
Proof. split; [vm_compute; reflexivity|vm_compute; discriminate]. Qed.
