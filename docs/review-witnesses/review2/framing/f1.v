From CV Require Import Model.Base Model.Events Model.Contract Model.Sched Proofs.FramingP.
Import ListNotations.
Open Scope N_scope.

Definition f1 := mk_sfeature 1 [mk_sscen 11 None false None] 0 2.
Definition fR := mk_sfeature 1 [mk_sscen 11 (Some 5) false None] 1 2.
Definition S11 := EvScen 1 None 11 None ScStarted.
Definition F11 := EvScen 1 None 11 None ScFinished.
Definition both ls es := (contract es, framing_ok es, inputs_ok ls es, framing_ok_for ls es).

(* good baseline *)
Definition ls_good := [LParseErr 1; LParseErr 2; LFeature f1].
Definition good := [EvStarted; EvParseErr 1; EvParseErr 2; EvParsingFinished 1 0 1 2 2; EvFeatS 1; S11; F11; EvFeatF 1; EvFinished].
Eval vm_compute in both ls_good good.
(* dropped parser error (count adjusted) *)
Eval vm_compute in both ls_good [EvStarted; EvParseErr 1; EvParsingFinished 1 0 1 2 1; EvFeatS 1; S11; F11; EvFeatF 1; EvFinished].
(* out of order *)
Eval vm_compute in both ls_good [EvStarted; EvParseErr 2; EvParseErr 1; EvParsingFinished 1 0 1 2 2; EvFeatS 1; S11; F11; EvFeatF 1; EvFinished].
(* duplicated *)
Eval vm_compute in both ls_good [EvStarted; EvParseErr 1; EvParseErr 1; EvParseErr 2; EvParsingFinished 1 0 1 2 3; EvFeatS 1; S11; F11; EvFeatF 1; EvFinished].
(* error after PF *)
Eval vm_compute in both ls_good [EvStarted; EvParseErr 1; EvParsingFinished 1 0 1 2 2; EvParseErr 2; EvFeatS 1; S11; F11; EvFeatF 1; EvFinished].
Eval vm_compute in both ls_good [EvStarted; EvParseErr 1; EvParsingFinished 1 0 1 2 1; EvParseErr 2; EvFeatS 1; S11; F11; EvFeatF 1; EvFinished].
(* two PF *)
Eval vm_compute in both ls_good [EvStarted; EvParseErr 1; EvParseErr 2; EvParsingFinished 1 0 1 2 2; EvParsingFinished 1 0 1 2 2; EvFeatS 1; S11; F11; EvFeatF 1; EvFinished].
(* wrong counts, each *)
Eval vm_compute in map (fun pfe => both ls_good [EvStarted; EvParseErr 1; EvParseErr 2; pfe; EvFeatS 1; S11; F11; EvFeatF 1; EvFinished])
  [EvParsingFinished 2 0 1 2 2; EvParsingFinished 1 1 1 2 2; EvParsingFinished 1 0 2 2 2; EvParsingFinished 1 0 1 3 2; EvParsingFinished 1 0 1 2 3].
(* no PF *)
Eval vm_compute in both ls_good [EvStarted; EvParseErr 1; EvParseErr 2; EvFeatS 1; S11; F11; EvFeatF 1; EvFinished].
(* empty feature bracket; empty rule bracket (feature nonempty) *)
Eval vm_compute in both [LFeature f1] [EvStarted; EvParsingFinished 1 0 1 2 0; EvFeatS 1; EvFeatF 1; EvFinished].
Eval vm_compute in both [LFeature f1] [EvStarted; EvParsingFinished 1 0 1 2 0; EvFeatS 1; EvRuleS 1 5; S11; F11; EvRuleF 1 5; EvFeatF 1; EvFinished].
(* feature with two brackets *)
Eval vm_compute in both [LFeature f1] [EvStarted; EvParsingFinished 1 0 1 2 0; EvFeatS 1; S11; F11; EvFeatF 1; EvFeatS 1; S11; F11; EvFeatF 1; EvFinished].
(* Feature Finished missing *)
Eval vm_compute in both [LFeature f1] [EvStarted; EvParsingFinished 1 0 1 2 0; EvFeatS 1; S11; F11; EvFinished].
(* events after run-Finished *)
Eval vm_compute in both [LFeature f1] [EvStarted; EvParsingFinished 1 0 1 2 0; EvFeatS 1; S11; F11; EvFeatF 1; EvFinished; EvFinished].
Eval vm_compute in both [LFeature f1] [EvStarted; EvParsingFinished 1 0 1 2 0; EvFinished; EvFeatS 1; S11; F11; EvFeatF 1].
(* run-Started missing *)
Eval vm_compute in both [LFeature f1] [EvParsingFinished 1 0 1 2 0; EvFeatS 1; S11; F11; EvFeatF 1; EvFinished].
(* feature event before run-Started *)
Eval vm_compute in both [LFeature f1] [EvParsingFinished 1 0 1 2 0; EvFeatS 1; EvStarted; S11; F11; EvFeatF 1; EvFinished].
(* rule bracket outside feature bracket *)
Definition S11r := EvScen 1 (Some 5) 11 None ScStarted.
Definition F11r := EvScen 1 (Some 5) 11 None ScFinished.
Eval vm_compute in both [LFeature fR] [EvStarted; EvParsingFinished 1 1 1 2 0; EvRuleS 1 5; EvFeatS 1; S11r; F11r; EvFeatF 1; EvRuleF 1 5; EvFinished].
Eval vm_compute in both [LFeature fR] [EvStarted; EvParsingFinished 1 1 1 2 0; EvFeatS 1; EvRuleS 1 5; S11r; F11r; EvFeatF 1; EvRuleF 1 5; EvFinished].
(* scenario event after its feature's Finished *)
Eval vm_compute in both [LFeature f1] [EvStarted; EvParsingFinished 1 0 1 2 0; EvFeatS 1; S11; EvFeatF 1; F11; EvFinished].
(* two run-Started *)
Eval vm_compute in both [LFeature f1] [EvStarted; EvStarted; EvParsingFinished 1 0 1 2 0; EvFeatS 1; S11; F11; EvFeatF 1; EvFinished].
