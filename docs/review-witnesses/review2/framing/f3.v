From CV Require Import Model.Base Model.Events Model.Contract Model.Sched Proofs.FramingP.
Import ListNotations.
Open Scope N_scope.
Definition run c ls := match exec c ls with
  | Some (s, tr) => Some (match pc s with Done => true | _ => false end, tr, contract tr, framing_ok_for ls tr) | None => None end.

(* (1) free fields: a feature announcing 0 rules and 0 steps whose scenario sits in rule 5; and one announcing 7 rules / 99 steps with none *)
Definition g1 := mk_sfeature 1 [mk_sscen 11 (Some 5) false None] 0 0.
Definition g2 := mk_sfeature 2 [] 7 99.
Definition ls1 := [LFeature g1; LFeature g2; LParserEnd; LTop; LAttStart (11,0); LAttEnd (11,0) false; LTop].
Eval vm_compute in run (mk_cfg (Some 2%nat) false) ls1.

(* (2) duplicate feature id (same id 1 delivered twice, scenarios 11 and 12), K = 2 *)
Definition d1 := mk_sfeature 1 [mk_sscen 11 None false None] 0 1.
Definition d2 := mk_sfeature 1 [mk_sscen 12 None false None] 0 1.
Definition ls2 := [LFeature d1; LFeature d2; LParserEnd; LTop; LAttStart (11,0); LAttStart (12,0); LAttEnd (11,0) false; LTop; LAttEnd (12,0) false; LTop].
Eval vm_compute in run (mk_cfg (Some 2%nat) false) ls2.

(* (3) scenario id shared between two features: the second cannot start while the first is open (schedule excluded) *)
Definition e1 := mk_sfeature 1 [mk_sscen 11 None false None] 0 1.
Definition e2 := mk_sfeature 2 [mk_sscen 11 None false None] 0 1.
Eval vm_compute in run (mk_cfg (Some 2%nat) false) [LFeature e1; LFeature e2; LParserEnd; LTop; LAttStart (11,0); LAttStart (11,0)].
Eval vm_compute in run (mk_cfg (Some 2%nat) false) [LFeature e1; LFeature e2; LParserEnd; LTop; LAttStart (11,0); LAttEnd (11,0) false; LTop; LAttStart (11,0); LAttEnd (11,0) false; LTop].

(* (4) fail-fast + parser error: what counts as received *)
Eval vm_compute in run (mk_cfg (Some 2%nat) true) [LFeature e1; LParseErr 9; LFeature e2].
Eval vm_compute in run (mk_cfg (Some 2%nat) true) [LFeature e1; LParseErr 9; LParseErr 10].
Eval vm_compute in run (mk_cfg (Some 2%nat) true) [LFeature e1; LParseErr 9; LParserEnd; LTop; LAttStart (11,0); LAttEnd (11,0) false; LTop].

(* (5) prefix form: what framing_prefix accepts *)
Eval vm_compute in (framing_prefix [], framing_prefix [EvFinished], framing_prefix [EvFeatF 1],
  framing_prefix [EvScen 9 (Some 9) 9 None ScFinished; EvFeatS 1; EvFeatS 1; EvRuleS 4 4],
  framing_prefix [EvParseErr 1; EvParseErr 1; EvStarted; EvStarted]).

(* (6) the incomplete-run theorem pair also pins the counts and errors: inputs_ok on a prefix *)
Eval vm_compute in inputs_ok [LParseErr 1; LFeature e1] [EvParseErr 1].
Eval vm_compute in inputs_ok [LParseErr 1; LFeature e1] [].
