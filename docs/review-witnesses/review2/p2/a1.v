From CV Require Import Model.Base Model.Events Model.Contract Model.Normalize Proofs.NormalizeP2 Proofs.NormalizeP7 Proofs.ReviewP2 Check.C11Check.
Import ReviewP2.RA.
Open Scope N_scope.

(* A "stalling" normalizer: behaves like the model until the first Feature::Finished would be forwarded; that event and
   everything behind it is held until run-Finished (pass-through events still forwarded at once). *)
Fixpoint upto_first_featF (l : list mev) : list mev :=
  match l with [] => [] | x :: t => match snd x with EvFeatF _ => [] | _ => x :: upto_first_featF t end end.
Definition stall_out (es : list mev) : list mev :=
  let out := concat (nrun es) in
  if existsb (fun e => is_finished (snd e)) out then out
  else upto_first_featF (filter (fun e => negb (is_pass (snd e))) out) .

(* three features; feature 1 finishes early; features 2 and 3 then run for a long time *)
Definition esB : list mev :=
  [ (1, EvStarted); (2, EvFeatS 1); (3, EvFeatS 2); (4, EvScen 1 None 5 None ScStarted); (5, EvScen 1 None 5 None ScFinished);
    (6, EvFeatF 1);
    (7, EvScen 2 None 7 (Some (0,1)) ScStarted); (8, EvScen 2 None 7 (Some (0,1)) (ScStep 9 StStarted));
    (9, EvScen 2 None 7 (Some (0,1)) (ScStep 9 (StFailed (EPanic 3)))); (10, EvScen 2 None 7 (Some (0,1)) ScFinished);
    (11, EvFeatS 3); (12, EvScen 3 None 8 None ScStarted);
    (13, EvScen 2 None 7 (Some (1,0)) ScStarted); (14, EvScen 2 None 7 (Some (1,0)) ScFinished); (15, EvFeatF 2);
    (16, EvScen 3 None 8 None ScFinished); (17, EvFeatF 3); (18, EvFinished) ].

Example esB_contract : contract (map snd esB) = true. Proof. vm_compute. reflexivity. Qed.

(* stalling output after each prefix *)
Example stall_outputs :
  map (fun n => map fst (stall_out (firstn n esB))) [6;10;17;18]%nat
  = [[2;4;5]; [2;4;5]; [2;4;5]; [1;2;4;5;6;3;7;8;9;10;13;14;15;11;12;16;17;18]].
Proof. vm_compute. reflexivity. Qed.
(* (I dropped EvStarted from the non-final outs by the filter; harmless for head_ok: put it back below) *)
Definition stall_out' (es : list mev) : list mev :=
  let out := concat (nrun es) in
  if existsb (fun e => is_finished (snd e)) out then out
  else filter (fun e => is_pass (snd e)) out ++ stall_out es.

(* THE VERBATIM CONCLUSION of C11_head_is_never_held_back / head_ok holds for the stalling output after EVERY call *)
Example stall_passes_head_ok_at_every_prefix :
  forallb (fun n => head_ok (firstn n esB) (stall_out' (firstn n esB))) (seq 0 19) = true.
Proof. vm_compute. reflexivity. Qed.
(* ... although after call 17 it holds 12 events, among them Feature 1's Finished, received at call 6, and all of features 2,3 *)
Example stall_holds : map fst (held (firstn 17 esB) (stall_out' (firstn 17 esB))) = [3;6;7;8;9;10;11;12;13;14;15;16;17].
Proof. vm_compute. reflexivity. Qed.
Example stall_head : head_feat (firstn 17 esB) (stall_out' (firstn 17 esB)) = Some 1
  /\ head_item 1 (firstn 17 esB) (stall_out' (firstn 17 esB)) = None
  /\ head_attempt (firstn 17 esB) (stall_out' (firstn 17 esB)) = None.
Proof. vm_compute. auto. Qed.

(* same one level down: hold Rule::Finished of the head rule *)
Definition esR : list mev :=
  [ (1, EvStarted); (2, EvFeatS 1); (3, EvRuleS 1 4); (4, EvScen 1 (Some 4) 6 None ScStarted); (5, EvScen 1 (Some 4) 6 None ScFinished);
    (6, EvRuleF 1 4); (7, EvScen 1 None 9 None ScStarted); (8, EvScen 1 None 9 None (ScStep 2 StStarted)); (9, EvScen 1 None 9 None ScFinished) ].
Definition outR : list mev := firstn 5 esR.   (* RuleF 1 4 and everything after held *)
Example esR_ok : contract_prefix (map snd esR) = true /\ head_ok esR outR = true
   /\ map fst (concat (nrun esR)) = [1;2;3;4;5;6;7;8;9].
Proof. vm_compute. auto. Qed.

(* the executable checker of Check/C11Check.v DOES reject both (through head_live, not through head_ok) *)
Fixpoint diffs (prev : list mev) (outs : list (list mev)) : list (list mev) :=
  match outs with [] => [] | o :: t => skipn (length prev) o :: diffs o t end.
Definition stall_calls (es : list mev) := diffs [] (map (fun n => stall_out' (firstn n es)) (seq 1 (length es))).
Example stall_calls_v : map (map fst) (stall_calls esB) = [[1];[2];[];[4];[5];[];[];[];[];[];[];[];[];[];[];[];[];[6;3;7;8;9;10;13;14;15;11;12;16;17;18]].
Proof. vm_compute. reflexivity. Qed.
Example checker_rejects_stall : c11_ok esB (stall_calls esB) = false. Proof. vm_compute. reflexivity. Qed.
Example checker_accepts_model : c11_ok esB (nrun esB) = true. Proof. vm_compute. reflexivity. Qed.
(* which conjunct rejects? only head_live inside walk *)
Example stall_walk : walk (Some cinit) [] esB (stall_calls esB) = false. Proof. vm_compute. reflexivity. Qed.
Example stall_headok_conj : forallb (fun n => head_ok (firstn n esB) (concat (firstn n (stall_calls esB)))) (seq 1 (length esB)) = true.
Proof. vm_compute. reflexivity. Qed.
