From CV Require Import Model.Base Model.Events Model.Contract Model.Normalize Proofs.NormalizeP2 Proofs.ReviewP2 Check.C11Check.
Import ReviewP2.RA.
Open Scope N_scope.
(* totally lazy: only pass-through events until run-Finished *)
Definition total_lazy (es : list mev) : list mev :=
  let out := concat (nrun es) in
  if existsb (fun e => is_finished (snd e)) out then out else filter (fun e => is_pass (snd e)) out.
Example total_lazy_rejected : head_ok exA2 (total_lazy exA2) = false. Proof. vm_compute. reflexivity. Qed.
(* holds only the head attempt's Finished (and what follows) *)
Definition hold_fin : list mev := firstn 5 (concat (nrun exA)).   (* drops nothing here; build explicit: *)
Definition esD : list mev := exA ++ [(8, EvScen 1 None 5 None ScFinished)].
Example model_D : map fst (concat (nrun esD)) = [1;2;5;6;8]. Proof. vm_compute. reflexivity. Qed.
Example hold_fin_rejected : head_ok esD (removelast (concat (nrun esD))) = false. Proof. vm_compute. reflexivity. Qed.
(* forwards the head's events one call late: at the prefix ending with a head event, rejected *)
Example late_rejected : head_ok (firstn 6 exA) (concat (nrun (firstn 5 exA))) = false. Proof. vm_compute. reflexivity. Qed.
(* but holding the head FEATURE's Finished is accepted (see a1.v) : minimal form *)
Definition esE : list mev := esD ++ [(9, EvFeatF 1)].
Example model_E : map fst (concat (nrun esE)) = [1;2;5;6;8;9;3;4;7]. Proof. vm_compute. reflexivity. Qed.
Example hold_featF_accepted : head_ok esE (concat (nrun esD)) = true. Proof. vm_compute. reflexivity. Qed.
