From CV Require Import Model.Base Model.Events Model.Contract Model.Attempt Model.AttemptSpec Proofs.ReviewP2 Check.AttemptCheck Check.Verdict.
Import ReviewP2.RC.
Open Scope N_scope.

(* (1) where do ids come from?  `w` is free: the SAME id may be pasted on two different attempts / scenarios;
   the Props theorem holds for both, so it cannot say "no instance is seen by two attempts" *)
Theorem same_id_for_two_attempts : forall i1 i2 w,
  c09_ok (is_some (ai_before i1)) (is_some (ai_after i1)) (ao_events (run_attempt i1)) (tag_calls w (ao_calls (run_attempt i1))) = true /\
  c09_ok (is_some (ai_before i2)) (is_some (ai_after i2)) (ao_events (run_attempt i2)) (tag_calls w (ao_calls (run_attempt i2))) = true.
Proof. intros. split; apply C09_lifecycle_contract_with_the_attempts_world. Qed.

Definition i9a := mk_attempt_in (Some None) (Some None) WOk [(10, OMatch None)] [] [(11, OMatch (Some 5)); (12, OMatch None)] (Some (0,1)).
Definition evs9 := ao_events (run_attempt i9a).
Definition log (w : N) := tag_calls w (ao_calls (run_attempt i9a)).
Eval vm_compute in log 1.

(* ---- wrong logs against c09_ok (single attempt) ---- *)
(* step receives another instance than the before hook *)
Example wl2 : c09_ok true true evs9 [(CWorldNew, Some 1); (CBefore [], Some 1); (CStep 10 [0], Some 2); (CStep 11 [0;10], Some 2);
   (CAfter (RStepFailed (EPanic 5)) (Some [0;10;11]), Some 2)] = false. Proof. vm_compute. reflexivity. Qed.
(* after hook receives None though a World was created *)
Example wl3 : c09_ok true true evs9 [(CWorldNew, Some 1); (CBefore [], Some 1); (CStep 10 [0], Some 1); (CStep 11 [0;10], Some 1);
   (CAfter (RStepFailed (EPanic 5)) None, None)] = false. Proof. vm_compute. reflexivity. Qed.
(* World created twice *)
Example wl4 : c09_ok true true evs9 [(CWorldNew, Some 1); (CBefore [], Some 1); (CWorldNew, Some 1); (CStep 10 [0], Some 1); (CStep 11 [0;10], Some 1);
   (CAfter (RStepFailed (EPanic 5)) (Some [0;10;11]), Some 1)] = false. Proof. vm_compute. reflexivity. Qed.
(* World created with no hook and no matching step *)
Definition i_nm := mk_attempt_in None None WOk [] [] [(11, ONoMatch)] None.
Example wl5 : c09_ok false false (ao_events (run_attempt i_nm)) [(CWorldNew, Some 1)] = false
           /\ c09_ok false false (ao_events (run_attempt i_nm)) [] = true. Proof. vm_compute. auto. Qed.
(* wrong reason / stale world for the after hook *)
Example wl6 : c09_ok true true evs9 [(CWorldNew, Some 1); (CBefore [], Some 1); (CStep 10 [0], Some 1); (CStep 11 [0;10], Some 1);
   (CAfter RStepPassed (Some [0;10;11]), Some 1)] = false. Proof. vm_compute. reflexivity. Qed.
Example wl7 : c09_ok true true evs9 [(CWorldNew, Some 1); (CBefore [], Some 1); (CStep 10 [0], Some 1); (CStep 11 [0;10], Some 1);
   (CAfter (RStepFailed (EPanic 5)) (Some [0;10]), Some 1)] = false. Proof. vm_compute. reflexivity. Qed.

(* ids that are None are simply skipped: an after hook / step whose instance id was not recorded is fine, whatever it was *)
Example wl8 : c09_ok true true evs9 [(CWorldNew, Some 1); (CBefore [], Some 1); (CStep 10 [0], None); (CStep 11 [0;10], None);
   (CAfter (RStepFailed (EPanic 5)) (Some [0;10;11]), None)] = true. Proof. vm_compute. reflexivity. Qed.

(* ---- cross-attempt: only in Check/AttemptCheck.c09_ok_case (real observations), first id of each attempt ---- *)
Definition frame (rt : retr) (evs : list scev) : list ev := map (EvScen 1 None 5 rt) evs.
Definition stream (body : list ev) : list ev := [EvStarted; EvFeatS 1] ++ body ++ [EvFeatF 1; EvFinished].
Definition i9b := mk_attempt_in (Some None) (Some None) WOk [(10, OMatch None)] [] [(11, OMatch (Some 5)); (12, OMatch None)] (Some (1,0)).
Definition two_attempts (w1 w2 : N) := mk_acase [i9a; i9a]
   (stream (frame (Some (0,1)) evs9 ++ frame (Some (1,0)) (ao_events (run_attempt i9b)))) [log w1; log w2] 0 true.
Example shared_rejected_by_case : c09_ok_case (two_attempts 1 1) = false /\ c09_ok_case (two_attempts 1 2) = true.
Proof. vm_compute. auto. Qed.
(* ... while each attempt on its own passes c09_ok with the shared id *)
Example shared_each_ok : c09_ok true true evs9 (log 1) = true. Proof. vm_compute. reflexivity. Qed.
(* the cross-attempt check looks at the FIRST recorded id of each attempt only; combined with same_instance that is enough,
   but with an unrecorded (None) id on the creating call the second attempt can reuse instance 1 for its steps unnoticed? no: *)
Definition log2_sneaky := [(CWorldNew, None); (CBefore [], Some 1); (CStep 10 [0], Some 1); (CStep 11 [0;10], Some 1);
   (CAfter (RStepFailed (EPanic 5)) (Some [0;10;11]), Some 1)].
Example sneaky : c09_ok_case (mk_acase [i9a; i9a] (ac_stream (two_attempts 1 1)) [log 1; log2_sneaky] 0 true) = false.
Proof. vm_compute. reflexivity. Qed.

(* ---- the (L) remark of M7: are callbacks tied to events now? steps yes ... ---- *)
Example foreign_ids_c09_ok_still_accepts :
  c09_ok false false [ScStarted; ScStep 10 StStarted; ScStep 10 StPassed; ScStep 11 StStarted; ScStep 11 StPassed; ScFinished]
    (tag_calls 3 [CWorldNew; CStep 77 []; CStep 78 [77]; CStep 79 [77; 78]]) = true
  /\ c09_strong false false [ScStarted; ScStep 10 StStarted; ScStep 10 StPassed; ScStep 11 StStarted; ScStep 11 StPassed; ScFinished]
    (tag_calls 3 [CWorldNew; CStep 77 []; CStep 78 [77]; CStep 79 [77; 78]]) = false.
Proof. vm_compute. auto. Qed.
(* old second witness: [CWorldNew; CAfter .. None] for events saying the before hook and a step passed *)
Example old_witness2 :
  c09_strong false true [ScStarted; ScHook true HStarted; ScHook true HPassed; ScStep 10 StStarted; ScStep 10 StPassed; ScHook false HStarted; ScHook false HPassed; ScFinished]
    (tag_calls 3 [CWorldNew; CAfter RStepPassed None]) = false.
Proof. vm_compute. reflexivity. Qed.
(* ... the BEFORE hook no: events say the before hook ran and Passed; the log never calls it (World created, nothing else) *)
Example before_hook_never_called_accepted :
  c09_strong true false [ScStarted; ScHook true HStarted; ScHook true HPassed; ScFinished] (tag_calls 3 [CWorldNew]) = true.
Proof. vm_compute. reflexivity. Qed.
(* with an after hook: it gets None although the events say the before hook passed on a created World *)
Example before_hook_never_called_accepted2 :
  c09_strong true true [ScStarted; ScHook true HStarted; ScHook true HPassed; ScHook false HStarted; ScHook false HPassed; ScFinished]
     (tag_calls 3 [CWorldNew; CAfter RStepPassed None]) = true.
Proof. vm_compute. reflexivity. Qed.
(* events: before hook passed, step 10 has no match (Skipped); log: before hook never called *)
Example before_hook_never_called_accepted3 :
  c09_strong true true [ScStarted; ScHook true HStarted; ScHook true HPassed; ScStep 10 StStarted; ScStep 10 StSkipped; ScHook false HStarted; ScHook false HPassed; ScFinished]
     (tag_calls 3 [CWorldNew; CAfter RStepSkipped None]) = true.
Proof. vm_compute. reflexivity. Qed.
(* and in the full case predicate + verdict *)
Definition i_b := mk_attempt_in (Some None) (Some None) WOk [] [] [(10, ONoMatch)] None.
Definition case_b := mk_acase [i_b] (stream (frame None (ao_events (run_attempt i_b)))) [tag_calls 3 [CWorldNew; CAfter RStepSkipped None]] 0 true.
Example case_b_monitor : c09_ok_case case_b = true /\ verdict_with c09_ok_case 9 case_b = [[9;1;3;0]].
Proof. vm_compute. auto. Qed.
Eval vm_compute in ao_calls (run_attempt i_b).
