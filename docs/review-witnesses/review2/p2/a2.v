From CV Require Import Model.Base Model.Events Model.Contract Model.Normalize Proofs.NormalizeP2 Proofs.NormalizeP7 Proofs.ReviewP2 Check.C11Check Check.Verdict.
Import ReviewP2.RA.
Open Scope N_scope.

(* interleaved, retries, rules, parser errors mid-stream, late ParsingFinished, empty feature, empty rule *)
Definition esC : list mev :=
  [ (1, EvStarted); (2, EvFeatS 1); (3, EvParseErr 77); (4, EvFeatS 2); (5, EvRuleS 2 8); (6, EvRuleS 1 4);
    (7, EvScen 2 (Some 8) 7 None ScStarted); (8, EvScen 1 (Some 4) 6 (Some (0, 1)) ScStarted);
    (9, EvFeatS 3); (10, EvFeatF 3);                                    (* feature without scenarios, not head *)
    (11, EvScen 1 (Some 4) 6 (Some (0, 1)) (ScStep 9 (StFailed (EPanic 3)))); (12, EvScen 2 (Some 8) 7 None ScFinished);
    (13, EvRuleF 2 8); (14, EvFeatF 2);
    (15, EvParseErr 78);
    (16, EvScen 1 (Some 4) 6 (Some (0, 1)) ScFinished);
    (17, EvRuleS 1 5); (18, EvRuleF 1 5);                                (* empty rule *)
    (19, EvScen 1 None 2 None ScStarted);                                (* top-level scenario behind rule 4 *)
    (20, EvScen 1 (Some 4) 6 (Some (1, 0)) ScStarted); (21, EvScen 1 None 2 None ScFinished);
    (22, EvParsingFinished 3 2 3 1 2);
    (23, EvScen 1 (Some 4) 6 (Some (1, 0)) ScFinished); (24, EvRuleF 1 4); (25, EvFeatF 1); (26, EvFinished) ].
Example esC_contract : contract (map snd esC) = true. Proof. vm_compute. reflexivity. Qed.
Example esC_calls : map (map fst) (nrun esC) =
  [[1];[2];[3];[];[];[6];[];[8];[];[];[11];[];[];[];[15];[16];[];[];[];[20];[];[22];[23];[24;17;18;19;21;25;4;5;7;12;13;14;9;10];[];[26]] -> True.
Proof. auto. Qed.
Eval vm_compute in map (map fst) (nrun esC).
(* not too strong here: the model's calls are accepted, at every prefix too (a cut / incomplete observation) *)
Example model_ok : c11_ok esC (nrun esC) = true. Proof. vm_compute. reflexivity. Qed.
Example model_ok_prefixes : forallb (fun n => c11_ok (firstn n esC) (firstn n (nrun esC))) (seq 0 27) = true.
Proof. vm_compute. reflexivity. Qed.

(* ---- too weak?  wrong writers ---- *)
(* (1) delays everything by one call (last call flushes) *)
Fixpoint delay1 (prev : list mev) (calls : list (list mev)) : list (list mev) :=
  match calls with [] => [] | [c] => [prev ++ c] | c :: t => prev :: delay1 c t end.
Example delayed_rejected : c11_ok esC (delay1 [] (nrun esC)) = false. Proof. vm_compute. reflexivity. Qed.
(* delays only non-pass-through events of the head by one call: *)
Definition delay_np (calls : list (list mev)) : list (list mev) :=
  let pass := map (filter (fun e => is_pass (snd e))) calls in
  let np := delay1 [] (map (filter (fun e => negb (is_pass (snd e)))) calls) in
  map (fun p => fst p ++ snd p) (combine pass np).
Example delayed_np_rejected : c11_ok esC (delay_np (nrun esC)) = false. Proof. vm_compute. reflexivity. Qed.
(* on the incomplete observation too *)
Example delayed_np_rejected_prefix : c11_ok (firstn 12 esC) (delay_np (nrun (firstn 12 esC))) = false. Proof. vm_compute. reflexivity. Qed.

(* (2) drops one event (a step event of a non-head feature: meta 12 -> dropped) *)
Definition drop (m : N) (calls : list (list mev)) := map (filter (fun e => negb (fst e =? m))) calls.
Example drop_rejected : c11_ok esC (drop 11 (nrun esC)) = false. Proof. vm_compute. reflexivity. Qed.
Example drop_rejected_prefix : c11_ok (firstn 12 esC) (drop 11 (nrun (firstn 12 esC))) = false. Proof. vm_compute. reflexivity. Qed.
(* drop an event of a NON-head feature, observation cut before the run is complete *)
Example drop_nonhead_prefix : c11_ok (firstn 22 esC) (drop 7 (nrun (firstn 22 esC))) = true. Proof. vm_compute. reflexivity. Qed.
Example drop_nonhead_complete : c11_ok esC (drop 7 (nrun esC)) = false. Proof. vm_compute. reflexivity. Qed.

(* (3) reorders the two attempts of scenario 6 of rule 4 (retry first) *)
Definition swap_attempts (calls : list (list mev)) : list (list mev) :=
  (* put everything in the last call, in a sequential but attempt-swapped order *)
  map (fun _ => []) (removelast calls) ++
  [ [ (1, EvStarted); (3, EvParseErr 77); (15, EvParseErr 78); (22, EvParsingFinished 3 2 3 1 2);
      (2, EvFeatS 1); (6, EvRuleS 1 4);
      (20, EvScen 1 (Some 4) 6 (Some (1, 0)) ScStarted); (23, EvScen 1 (Some 4) 6 (Some (1, 0)) ScFinished);
      (8, EvScen 1 (Some 4) 6 (Some (0, 1)) ScStarted); (11, EvScen 1 (Some 4) 6 (Some (0, 1)) (ScStep 9 (StFailed (EPanic 3))));
      (16, EvScen 1 (Some 4) 6 (Some (0, 1)) ScFinished); (24, EvRuleF 1 4); (17, EvRuleS 1 5); (18, EvRuleF 1 5);
      (19, EvScen 1 None 2 None ScStarted); (21, EvScen 1 None 2 None ScFinished); (25, EvFeatF 1);
      (4, EvFeatS 2); (5, EvRuleS 2 8); (7, EvScen 2 (Some 8) 7 None ScStarted); (12, EvScen 2 (Some 8) 7 None ScFinished);
      (13, EvRuleF 2 8); (14, EvFeatF 2); (9, EvFeatS 3); (10, EvFeatF 3); (26, EvFinished) ] ].
(* is the attempt-swapped order even "normalized"? *)
Example swapped_not_normalized : normalized (map snd (concat (swap_attempts (nrun esC)))) = false. Proof. vm_compute. reflexivity. Qed.
Example swapped_rejected : c11_ok esC (swap_attempts (nrun esC)) = false. Proof. vm_compute. reflexivity. Qed.

(* (3b) swapped attempts but emitted eagerly is impossible (retry arrives later). Reorder two events INSIDE one attempt: *)
Definition swap_in_att (calls : list (list mev)) : list (list mev) :=
  map (map (fun e => if fst e =? 8 then (11, EvScen 1 (Some 4) 6 (Some (0, 1)) (ScStep 9 (StFailed (EPanic 3))))
                     else if fst e =? 11 then (8, EvScen 1 (Some 4) 6 (Some (0, 1)) ScStarted) else e)) calls.
Example swap_in_att_rejected : c11_ok esC (swap_in_att (nrun esC)) = false. Proof. vm_compute. reflexivity. Qed.

(* (4) a writer that changes the metadata tag of a forwarded event *)
Definition retag (calls : list (list mev)) := map (map (fun e => if fst e =? 11 then (99, snd e) else e)) calls.
Example retag_rejected : c11_ok esC (retag (nrun esC)) = false. Proof. vm_compute. reflexivity. Qed.

(* (5) emits features in a different order than started (feature 3 before feature 2) at the final flush *)
Definition reorder_feats (calls : list (list mev)) : list (list mev) :=
  map (fun c => if Nat.eqb (length c) 9 then
     filter (fun e => match ev_feat (snd e) with Some 1 => true | _ => false end) c ++
     filter (fun e => match ev_feat (snd e) with Some 3 => true | _ => false end) c ++
     filter (fun e => match ev_feat (snd e) with Some 2 => true | _ => false end) c else c) calls.
Eval vm_compute in map (map fst) (reorder_feats (nrun esC)).
Eval vm_compute in c11_ok esC (reorder_feats (nrun esC)).
