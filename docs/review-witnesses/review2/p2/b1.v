From CV Require Import Model.Base Model.Events Model.Contract Model.Attempt Model.AttemptSpec Proofs.ReviewP2 Check.AttemptCheck Check.Verdict.
Import ReviewP2.RB.
Open Scope N_scope.

Definition all_decl' (i : attempt_in) := decl_of i.
Definition wf i evs := wf_events (is_some (ai_before i)) (is_some (ai_after i)) (decl_of i) evs.

(* i1: no before hook, after hook, bg step passes, step 11 panics with 5, step 12 would pass *)
Definition i1 := mk_attempt_in None (Some None) WOk [(10, OMatch None)] [] [(11, OMatch (Some 5)); (12, OMatch None)] None.
Eval vm_compute in spec_events i1.
Definition pre1 := [ScStarted; ScBg 10 StStarted; ScBg 10 StPassed; ScStep 11 StStarted].
Definition aft := [ScHook false HStarted; ScHook false HPassed; ScFinished].
Example good1 : events_match_outcomes i1 (pre1 ++ ScStep 11 (StFailed (EPanic 5)) :: aft) = true. Proof. vm_compute. reflexivity. Qed.
(* panicked step reported as not-found / ambiguous / other payload: wf_events accepts, new predicate rejects *)
Example w1a : wf i1 (pre1 ++ ScStep 11 (StFailed ENotFound) :: aft) = true /\ events_match_outcomes i1 (pre1 ++ ScStep 11 (StFailed ENotFound) :: aft) = false. Proof. vm_compute. auto. Qed.
Example w1b : wf i1 (pre1 ++ ScStep 11 (StFailed EAmbiguous) :: aft) = true /\ events_match_outcomes i1 (pre1 ++ ScStep 11 (StFailed EAmbiguous) :: aft) = false. Proof. vm_compute. auto. Qed.
Example w1c : events_match_outcomes i1 (pre1 ++ ScStep 11 (StFailed (EPanic 6)) :: aft) = false. Proof. vm_compute. auto. Qed.
(* steps after the first failure still emitted *)
Example w5 : events_match_outcomes i1 (pre1 ++ [ScStep 11 (StFailed (EPanic 5)); ScStep 12 StStarted; ScStep 12 StPassed] ++ aft) = false. Proof. vm_compute. auto. Qed.
(* after-hook events before the failure event *)
Example w6 : events_match_outcomes i1 (pre1 ++ [ScHook false HStarted; ScHook false HPassed; ScStep 11 (StFailed (EPanic 5)); ScFinished]) = false. Proof. vm_compute. auto. Qed.
(* after hook Started, then failure, then after hook result *)
Example w6b : events_match_outcomes i1 (pre1 ++ [ScHook false HStarted; ScStep 11 (StFailed (EPanic 5)); ScHook false HPassed; ScFinished]) = false. Proof. vm_compute. auto. Qed.

(* i2: no-match step *)
Definition i2 := mk_attempt_in None None WOk [] [(10, ONoMatch)] [(11, OMatch None)] None.
Eval vm_compute in spec_events i2.
Example w2 : wf i2 [ScStarted; ScBg 10 StStarted; ScBg 10 (StFailed ENotFound); ScFinished] = true
  /\ events_match_outcomes i2 [ScStarted; ScBg 10 StStarted; ScBg 10 (StFailed ENotFound); ScFinished] = false. Proof. vm_compute. auto. Qed.
(* after a Skipped step the later step is emitted *)
Example w2b : events_match_outcomes i2 [ScStarted; ScBg 10 StStarted; ScBg 10 StSkipped; ScStep 11 StStarted; ScStep 11 StPassed; ScFinished] = false. Proof. vm_compute. auto. Qed.
(* i3: passing step reported skipped *)
Definition i3 := mk_attempt_in None None WOk [] [] [(11, OMatch None); (12, OMatch None)] None.
Example w3 : wf i3 [ScStarted; ScStep 11 StStarted; ScStep 11 StSkipped; ScFinished] = true
  /\ events_match_outcomes i3 [ScStarted; ScStep 11 StStarted; ScStep 11 StSkipped; ScFinished] = false. Proof. vm_compute. auto. Qed.
(* i4: World::new returns Err 4 (payload 2004); list shows the panic encoding 1004 *)
Definition i4 := mk_attempt_in None None (WErr 4) [] [] [(11, OMatch None)] None.
Example w4 : wf i4 [ScStarted; ScStep 11 StStarted; ScStep 11 (StFailed (EPanic 1004)); ScFinished] = true
  /\ events_match_outcomes i4 [ScStarted; ScStep 11 StStarted; ScStep 11 (StFailed (EPanic 1004)); ScFinished] = false
  /\ events_match_outcomes i4 [ScStarted; ScStep 11 StStarted; ScStep 11 (StFailed (EPanic 2004)); ScFinished] = true. Proof. vm_compute. auto. Qed.
(* World fails but the first step has no match (no World needed) then ... stops; and ambiguous *)
Definition i4b := mk_attempt_in None (Some None) (WPanic 3) [(9, OAmbiguous)] [] [(11, OMatch None)] None.
Eval vm_compute in spec_events i4b.
(* i5: before hook panics with 8; steps executed anyway *)
Definition i5 := mk_attempt_in (Some (Some 8)) (Some None) WOk [] [] [(11, OMatch None)] None.
Eval vm_compute in spec_events i5.
Example w7 : events_match_outcomes i5 ([ScStarted; ScHook true HStarted; ScHook true (HFailed 8); ScStep 11 StStarted; ScStep 11 StPassed] ++ aft) = false. Proof. vm_compute. auto. Qed.
Example w7b : events_match_outcomes i5 ([ScStarted; ScHook true HStarted; ScStep 11 StStarted; ScStep 11 StPassed; ScHook true (HFailed 8)] ++ aft) = false. Proof. vm_compute. auto. Qed.
(* before hook path with failing World *)
Definition i6 := mk_attempt_in (Some None) None (WErr 1) [(10, OMatch None)] [] [] (Some (0,2)).
Eval vm_compute in spec_events i6.
(* zero steps, no hooks *)
Definition i7 := mk_attempt_in None None (WErr 1) [] [] [] None.
Eval vm_compute in spec_events i7.
Example z : events_match_outcomes i7 [ScStarted; ScFinished] = true. Proof. vm_compute. auto. Qed.

(* hypotheses of C02_outcome_event_mapping on ordinary inputs *)
Example hyp1 : before_lets_steps_run i1 = Some ([], false) /\ tagged i1 = [(true,(10, OMatch None))] ++ (false,(11, OMatch (Some 5))) :: [(false,(12, OMatch None))]
   /\ passes false WOk [(true,(10, OMatch None))] = true. Proof. vm_compute. auto. Qed.
Example hyp4 : before_lets_steps_run i4 = Some ([], false) /\ passes false (WErr 4) [] = true. Proof. vm_compute. auto. Qed.

(* ---- AttemptCheck.c02_ok on observations ---- *)
Definition frame (rt : retr) (evs : list scev) : list ev := map (EvScen 1 None 5 rt) evs.
Definition stream (body : list ev) : list ev := [EvStarted; EvFeatS 1] ++ body ++ [EvFeatF 1; EvFinished].
Definition mkc (ins : list attempt_in) (body : list ev) := mk_acase ins (stream body) [] 0 true.

Example c02_good : c02_ok (mkc [i1] (frame None (spec_events i1))) = true. Proof. vm_compute. reflexivity. Qed.
Example c02_w1a : c02_ok (mkc [i1] (frame None (pre1 ++ ScStep 11 (StFailed ENotFound) :: aft))) = false. Proof. vm_compute. reflexivity. Qed.
Example c02_w7 : c02_ok (mkc [i5] (frame None ([ScStarted; ScHook true HStarted; ScHook true (HFailed 8); ScStep 11 StStarted; ScStep 11 StPassed] ++ aft))) = false. Proof. vm_compute. reflexivity. Qed.
Example c02_good5 : c02_ok (mkc [i5] (frame None (spec_events i5))) = true. Proof. vm_compute. reflexivity. Qed.
Example c02_good2 : c02_ok (mkc [i2] (frame None (spec_events i2))) = true. Proof. vm_compute. reflexivity. Qed.
Example c02_good6 : c02_ok (mkc [i6] (frame (Some (0,2)) (spec_events i6))) = true. Proof. vm_compute. reflexivity. Qed.

(* the runner emits NOTHING for the scenario: monitor true (groups empty) *)
Example c02_no_events : c02_ok (mkc [i1] []) = true. Proof. vm_compute. reflexivity. Qed.
Example c02_no_events_verdict : verdict_with c02_ok 1 (mkc [i1] []) = [[1;1;3;0]]. Proof. vm_compute. reflexivity. Qed.

(* retry chain: i6 fails (World Err) with budget 2: three attempts expected; observed stream has only the first attempt
   -> c02 monitor true (combine truncates), verdict code 3 via same_as_model *)
Example c02_chain_short : c02_ok (mkc [i6;i6;i6] (frame (Some (0,2)) (spec_events i6))) = true. Proof. vm_compute. reflexivity. Qed.
Example c02_chain_short_verdict : verdict_with c02_ok 1 (mkc [i6;i6;i6] (frame (Some (0,2)) (spec_events i6))) = [[1;1;3;0]]. Proof. vm_compute. reflexivity. Qed.
(* second attempt's events carry a DIFFERENT retry counter in the middle of the attempt: grouped into 3 groups *)
Definition mixed := frame (Some (0,1)) [ScStarted; ScStep 11 StStarted] ++ frame (Some (1,0)) [ScStep 11 StPassed] ++ frame (Some (0,1)) [ScFinished].
Example c02_mixed_retry : c02_ok (mkc [i3] mixed) = false. Proof. vm_compute. reflexivity. Qed.
