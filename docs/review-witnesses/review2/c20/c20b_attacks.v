From CV Require Import Model.Base Model.Events Model.TracingAttr Proofs.TracingAttrP Check.Verdict Check.C20bCheck.
Require Import List NArith. Import ListNotations. Open Scope N_scope.

Definition code (rs : list arec) := verdict 20 (mk_acase20 rs).

(* ---------- W_A: a log of scenario 101 is delivered ONLY to scenario 102 (after finish_scenario 101): accepted ---------- *)
Definition wA : list arec :=
  [ AReg 1 101 None; AReg 2 102 None;
    ANewSpan 10 None; ASpanSid 10 1; ANewSpan 11 (Some 10);
    ANewSpan 20 None; ASpanSid 20 2;
    AEmit 101 1001; AFmt (Some 11) (Some 1);
    AUnreg 1;
    ADeliver 102 None (Some 1001);
    AUnreg 2 ].
Example wA_accepted : attr_ok wA = true /\ shaped wA = true /\ code wA = [[20;1;0;0];[20;90;0;1]].
Proof. vm_compute. repeat split; reflexivity. Qed.

(* ---------- W_A2: stale registry / scenario-id reuse: id 1 re-registered for another scenario before the delivery ---------- *)
Definition wA2 : list arec :=
  [ AReg 1 101 None;
    ANewSpan 10 None; ASpanSid 10 1; ANewSpan 11 (Some 10);
    AEmit 101 1001; AFmt (Some 11) (Some 1);
    AUnreg 1; AReg 1 102 None;
    ADeliver 102 None (Some 1001) ].
Example wA2_accepted : attr_ok wA2 = true /\ shaped wA2 = true.
Proof. vm_compute. split; reflexivity. Qed.

(* ---------- W_B: delivered twice / never delivered: accepted ---------- *)
Definition wB_twice : list arec :=
  [ AReg 1 101 None; ANewSpan 10 None; ASpanSid 10 1; ANewSpan 11 (Some 10);
    AEmit 101 1001; AFmt (Some 11) (Some 1);
    ADeliver 101 None (Some 1001); ADeliver 101 None (Some 1001); ADeliver 101 None (Some 1001); AUnreg 1 ].
Definition wB_lost : list arec :=
  [ AReg 1 101 None; ANewSpan 10 None; ASpanSid 10 1; ANewSpan 11 (Some 10);
    AEmit 101 1001; AFmt (Some 11) (Some 1); AUnreg 1 ].
Example wB_accepted : attr_ok wB_twice = true /\ attr_ok wB_lost = true
                      /\ code wB_twice = [[20;1;0;0];[20;90;0;1]] /\ code wB_lost = [[20;1;0;0];[20;90;0;1]].
Proof. vm_compute. repeat split; reflexivity. Qed.

(* ---------- W_C: the single `a_pending` slot: two AEmit in a row; the first message is never judged, and may then be
   delivered to the wrong scenario ---------- *)
Definition wC : list arec :=
  [ AReg 1 101 None; AReg 2 102 None;
    ANewSpan 10 None; ASpanSid 10 1; ANewSpan 11 (Some 10);
    ANewSpan 20 None; ASpanSid 20 2; ANewSpan 21 (Some 20);
    AEmit 101 1001; AEmit 102 2001;
    AFmt (Some 21) (Some 2);          (* judged as 2001's *)
    AFmt (Some 21) (Some 2);          (* 1001's event, resolved to scenario 102's id: pending = None, not judged *)
    ADeliver 102 None (Some 2001);
    ADeliver 102 None (Some 1001) ].  (* 101's message delivered as 102's *)
Example wC_accepted : attr_ok wC = true.
Proof. vm_compute. reflexivity. Qed.

(* ---------- W_D: a delivered harness message that was never AEmit'ed (the helper-thread messages of the harness are
   translated to NO AEmit): any destination is accepted ---------- *)
Definition wD : list arec :=
  [ AReg 1 101 None; AReg 2 102 None; ANewSpan 10 None; ASpanSid 10 1;
    ADeliver 102 None (Some 5555); ADeliver 999 (Some (3, 4)) (Some 5555) ].  (* 999 is not even registered *)
Example wD_accepted : attr_ok wD = true.
Proof. vm_compute. reflexivity. Qed.

(* ---------- W_E: attempts. AEmit has no attempt: a message logged in the scope of ANOTHER ATTEMPT of the same scenario
   passes (b) and is delivered as that attempt's log (compare ex_foreign_scope_rejected: other scenario => clause 2) ---------- *)
Definition wE : list arec :=
  [ AReg 1 101 (Some (0, 1)); AReg 2 101 (Some (1, 0));
    ANewSpan 10 None; ASpanSid 10 1; ANewSpan 11 (Some 10);     (* attempt 0 *)
    ANewSpan 20 None; ASpanSid 20 2; ANewSpan 21 (Some 20);     (* attempt 1 *)
    AEmit 101 1001;                    (* whichever attempt's code emits it *)
    AFmt (Some 21) (Some 2);
    ADeliver 101 (Some (1, 0)) (Some 1001) ].
Example wE_accepted : attr_ok wE = true.
Proof. vm_compute. reflexivity. Qed.

(* ---------- attacks that FAIL (adequacy evidence) ---------- *)
(* real code resolves the innermost id'd span, or the wrong scenario's id, or None: rejected with clause 1 -> verdict code 3 *)
Example reject_a :
  code [ AReg 1 101 None; ANewSpan 10 None; ASpanSid 10 1; ANewSpan 11 (Some 10); ASpanSid 11 7; ANewSpan 12 (Some 11);
         AEmit 101 1; AFmt (Some 12) (Some 7) ] = [[20;1;3;0];[20;90;0;1]].
Proof. vm_compute. reflexivity. Qed.
(* registered scenario delivered to the other registered scenario: clause 3 -> code 1 *)
Example reject_c :
  code [ AReg 1 101 None; AReg 2 102 None; ANewSpan 10 None; ASpanSid 10 1; ANewSpan 11 (Some 10);
         AEmit 101 1; AFmt (Some 11) (Some 1); ADeliver 102 None (Some 1) ] = [[20;1;1;0];[20;90;0;1]].
Proof. vm_compute. reflexivity. Qed.
(* a harness message logged outside every span (e.g. in a spawned, un-instrumented task): the model and code agree (None), clause 2 *)
Example reject_b_none :
  code [ AReg 1 101 None; ANewSpan 10 None; ASpanSid 10 1; AEmit 101 1; AFmt None None ] = [[20;1;1;0];[20;90;0;1]].
Proof. vm_compute. reflexivity. Qed.
(* legit: logs outside any scenario, not harness messages, broadcast to all: accepted *)
Example legit_outside :
  attr_ok [ AReg 1 101 None; AReg 2 102 (Some (1,2)); AFmt None None; ADeliver 101 None None; ADeliver 102 (Some (1,2)) None;
            ANewSpan 5 None; AFmt (Some 5) None; ADeliver 101 None None ] = true.
Proof. vm_compute. reflexivity. Qed.
(* legit: retry = fresh id, the old id unregistered first; an outer application span without id above everything *)
Definition legit_retry : list arec :=
  [ ANewSpan 1 None;                                             (* application span *)
    AReg 1 101 (Some (0, 1)); ANewSpan 10 (Some 1); ASpanSid 10 1; ANewSpan 11 (Some 10);
    AReg 2 102 None; ANewSpan 20 (Some 1); ASpanSid 20 2; ANewSpan 21 (Some 20);
    AEmit 101 1; AFmt (Some 11) (Some 1); AEmit 102 2; AFmt (Some 21) (Some 2);
    ADeliver 102 None (Some 2); ADeliver 101 (Some (0, 1)) (Some 1);
    AUnreg 1;
    AReg 3 101 (Some (1, 0)); ANewSpan 30 (Some 1); ASpanSid 30 3; ANewSpan 31 (Some 30); ANewSpan 32 (Some 31);
    AEmit 101 3; AFmt (Some 32) (Some 3); ADeliver 101 (Some (1, 0)) (Some 3);
    AUnreg 3; AUnreg 2 ].
Example legit_retry_ok : attr_ok legit_retry = true /\ shaped legit_retry = true.
Proof. vm_compute. split; reflexivity. Qed.
(* and the lookups / recipients of that run *)
Example legit_retry_lookups :
  let st := arun (firstn 24 legit_retry) in
  map (fun x => scope_lookup (a_tbl st) (Some x)) [1; 10; 11; 20; 21; 30; 31; 32]
   = [None; Some 1; Some 1; Some 2; Some 2; Some 3; Some 3; Some 3]
  /\ recipients (a_reg st) (Some 3) = [(101, Some (1, 0))]
  /\ recipients (a_reg st) (Some 1) = [(101, Some (1, 0)); (102, None)]      (* stale id of attempt 0: broadcast *)
  /\ recipients (a_reg st) None = [(101, Some (1, 0)); (102, None)].
Proof. vm_compute. repeat split; reflexivity. Qed.

(* ---------- the attribution theorem is non-vacuous (instantiated on the run above) ---------- *)
Example attribution_instance :
  let st := arun (firstn 24 legit_retry) in
  scope_lookup (a_tbl st) (Some 32) = Some 3 /\
  recipients (a_reg st) (scope_lookup (a_tbl st) (Some 32)) = [(101, Some (1, 0))].
Proof.
  change (firstn 24 legit_retry) with (firstn 19 legit_retry ++ skipn 19 (firstn 24 legit_retry)).
  apply (attribution_history (firstn 19 legit_retry) (skipn 19 (firstn 24 legit_retry)) 30 3 32 101 (Some (1, 0))).
  - vm_compute. reflexivity.
  - exists (mk_span (Some 1) (Some 3)). vm_compute. repeat split; reflexivity.
  - eapply below_up; [vm_compute; reflexivity | reflexivity |].
    eapply below_up; [vm_compute; reflexivity | reflexivity |]. apply below_refl.
  - vm_compute. reflexivity.
Qed.

(* ---------- the model admits the violating run: the theorem's registration hypothesis is what excludes it ---------- *)
(* same table, same top span, but the id is no longer registered when the message is forwarded: other scenarios get it *)
Example model_admits_misattribution :
  let st := arun (firstn 10 wA) in
  scope_lookup (a_tbl st) (Some 11) = Some 1 /\ recipients (a_reg st) (scope_lookup (a_tbl st) (Some 11)) = [(102, None)].
Proof. vm_compute. split; reflexivity. Qed.
