From CV Require Import Model.Base Model.Events Model.Attempt Model.AttemptSpec Model.Sched
  Proofs.AttemptP Proofs.SchedP9 Proofs.SchedP13 Proofs.Compose2.
From CV Require Model.StatsSpec.
From Coq Require Import List NArith Bool. Import ListNotations. Open Scope N_scope.

(* A1: own satisfiable run. feature 1: scenario 20 in rule 5, retry 2, serial=false; scenario 21 no rule, no retry; scenario 22 serial.
   concurrency 2. (20,0): before hook + World::new Err -> hook failed; (20,1): bg step passes, step ambiguous, after hook panics;
   (20,2): passes. (21,0): step no-match (skipped). (22,0) serial: after hook panics only (final failure) *)
Definition F : sfeature :=
  mk_sfeature 1 [mk_sscen 20 (Some 5) false (Some (2, None)); mk_sscen 21 None false None; mk_sscen 22 None true None] 1 4.
Definition C2 : cfg := mk_cfg (Some 2%nat) false.
Definition inp1 (k : akey) : attempt_in :=
  if akey_eqb k (20,0) then mk_attempt_in (Some None) (Some None) (WErr 3) [(1, OMatch None)] [] [(2, OMatch None)] (Some (0,2))
  else if akey_eqb k (20,1) then mk_attempt_in None (Some (Some 9)) WOk [(1, OMatch None)] [] [(2, OAmbiguous)] (Some (1,1))
  else if akey_eqb k (20,2) then mk_attempt_in None None WOk [(1, OMatch None)] [] [(2, OMatch None)] (Some (2,0))
  else if akey_eqb k (21,0) then mk_attempt_in None None WOk [] [] [(3, ONoMatch); (4, OMatch None)] None
  else mk_attempt_in None (Some (Some 8)) WOk [] [] [] None.
Definition evs_of k := ao_events (run_attempt (inp1 k)).
Definition mids k := map (LAttEv k) (removelast (tl (evs_of k))).
Definition flag k := ao_failed (run_attempt (inp1 k)).
Eval vm_compute in (evs_of (20,0), flag (20,0)).
Eval vm_compute in (evs_of (20,1), flag (20,1)).
Eval vm_compute in (evs_of (22,0), flag (22,0)).

(* serial goes first alone (F2): 22 runs alone, then 20 and 21 concurrently, interleaved *)
Definition L1 : list label :=
  [LFeature F; LParserEnd; LTop; LAttStart (22,0)] ++ mids (22,0) ++ [LAttEnd (22,0) true; LTop;
   LAttStart (20,0); LAttStart (21,0)] ++ mids (20,0) ++ [LAttEv (21,0) (ScStep 3 StStarted); LAttEnd (20,0) true; LTop;
   LAttStart (20,1)] ++ mids (20,1) ++ [LAttEv (21,0) (ScStep 3 StSkipped); LAttEnd (20,1) true; LTop;
   LAttEnd (21,0) false; LTop; LAttStart (20,2)] ++ mids (20,2) ++ [LAttEnd (20,2) false; LTop].

Example A1_sat :
  match exec C2 L1 with
  | Some (s, tr) => (match pc s with Done => true | _ => false end, is_break (flow s),
                     edges_of 20 tr, StatsSpec.spec_failed tr, faithfulb inp1 L1)
  | None => (false, true, [], false, false)
  end = (true, false, [(Some (0,2), true); (Some (0,2), false); (Some (1,1), true); (Some (1,1), false);
                       (Some (2,0), true); (Some (2,0), false)], true, true).
Proof. vm_compute. reflexivity. Qed.

(* same with fail-fast ON: the serial scenario's final failure trips; is the prefix faithful & accepted? *)
Definition L1ff : list label :=
  [LFeature F; LParserEnd; LTop; LAttStart (22,0)] ++ mids (22,0) ++ [LAttEnd (22,0) true; LTop].
Example A1_ff :
  match exec (mk_cfg (Some 2%nat) true) L1ff with
  | Some (s, tr) => (match pc s with Done => true | _ => false end, is_break (flow s), StatsSpec.spec_failed tr, faithfulb inp1 L1ff)
  | None => (false, false, false, false)
  end = (true, true, true, true).
Proof. vm_compute. reflexivity. Qed.

(* A2: ai_retr is NOT tied: the same labels are faithful for inputs whose retry counters are all None / nonsense;
   the attempt model then says "no retry" (ao_retry = None) for an attempt the scheduler retries *)
Definition strip (i : attempt_in) : attempt_in :=
  mk_attempt_in (ai_before i) (ai_after i) (ai_world i) (ai_fbg i) (ai_rbg i) (ai_steps i) None.
Example A2_retr_untied :
  faithfulb (fun k => strip (inp1 k)) L1 = true /\
  ao_failed (run_attempt (strip (inp1 (20,0)))) = true /\
  ao_retry (run_attempt (strip (inp1 (20,0)))) = None /\
  ao_retry (run_attempt (inp1 (20,0))) = Some (1, 1).
Proof. vm_compute. repeat split. Qed.

(* A3: inputs of the attempts of ONE scenario are unrelated (different declared steps/hooks per attempt), and unrelated to the
   feature (sf_nsteps F = 4 only a count) : attempt (20,2) runs steps 77,78 with a before hook *)
Definition inp3 (k : akey) : attempt_in :=
  if akey_eqb k (20,2) then mk_attempt_in (Some None) None WOk [] [] [(77, OMatch None); (78, ONoMatch)] (Some (5,5))
  else inp1 k.
Definition mids3 k := map (LAttEv k) (removelast (tl (ao_events (run_attempt (inp3 k))))).
Definition L3 : list label :=
  [LFeature F; LParserEnd; LTop; LAttStart (22,0)] ++ mids (22,0) ++ [LAttEnd (22,0) true; LTop;
   LAttStart (20,0); LAttStart (21,0)] ++ mids (20,0) ++ [LAttEv (21,0) (ScStep 3 StStarted); LAttEnd (20,0) true; LTop;
   LAttStart (20,1)] ++ mids (20,1) ++ [LAttEv (21,0) (ScStep 3 StSkipped); LAttEnd (20,1) true; LTop;
   LAttEnd (21,0) false; LTop; LAttStart (20,2)] ++ mids3 (20,2) ++ [LAttEnd (20,2) false; LTop].
Example A3_inputs_unrelated :
  match exec C2 L3 with Some (s, tr) => (match pc s with Done => true | _ => false end, faithfulb inp3 L3,
                                        out_evs (20,2) tr) | None => (false,false,[]) end
  = (true, true, [ScStarted; ScHook true HStarted; ScHook true HPassed; ScStep 77 StStarted; ScStep 77 StPassed;
                  ScStep 78 StStarted; ScStep 78 StSkipped; ScFinished]).
Proof. vm_compute. reflexivity. Qed.

(* A4: first-review witnesses (w1.v) *)
Definition f1 := mk_sfeature 1 [mk_sscen 11 None false (Some (1,None))] 0 1.
Definition w1a := [LFeature f1; LParserEnd; LTop; LAttStart (11,0); LAttEv (11,0) (ScStep 7 StStarted);
                   LAttEv (11,0) (ScStep 7 (StFailed (EPanic 5))); LAttEnd (11,0) false; LTop].
Definition w1b := [LFeature f1; LParserEnd; LTop; LAttStart (11,0); LAttEv (11,0) (ScStep 7 StStarted);
                   LAttEv (11,0) (ScStep 7 StPassed); LAttEnd (11,0) true; LTop; LAttStart (11,1); LAttEnd (11,1) false; LTop].
Definition w1c := [LFeature f1; LParserEnd; LTop; LAttStart (11,0); LAttEv (11,0) (ScStep 7 StPassed);
                   LAttEv (11,0) (ScStep 7 StStarted); LAttEnd (11,0) false; LTop].
Definition inpP (p : option N) (_ : akey) := mk_attempt_in None None WOk [] [] [(7, OMatch p)] (Some (0,1)).
Example A4_old_witnesses_accepted_by_exec :
  (is_some (exec (mk_cfg (Some 1%nat) false) w1a), is_some (exec (mk_cfg (Some 1%nat) false) w1b),
   is_some (exec (mk_cfg (Some 1%nat) false) w1c)) = (true, true, true).
Proof. vm_compute. reflexivity. Qed.
Theorem A4_w1a_unfaithful : forall inp, ~ faithful inp w1a.
Proof. apply (contradicting_flag_is_unfaithful w1a (11,0) false); [unfold w1a; repeat (first [left; reflexivity|right])|vm_compute; discriminate]. Qed.
Theorem A4_w1b_unfaithful : forall inp, ~ faithful inp w1b.
Proof. apply (contradicting_flag_is_unfaithful w1b (11,0) true); [unfold w1b; repeat (first [left; reflexivity|right])|vm_compute; discriminate]. Qed.
Example A4_checker : (faithfulb (inpP (Some 5)) w1a, faithfulb (inpP None) w1b, faithfulb (inpP None) w1c) = (false,false,false).
Proof. vm_compute. reflexivity. Qed.
(* w1c (Passed before Started): rejected by the checker for the natural input (general proof not attempted) *)
