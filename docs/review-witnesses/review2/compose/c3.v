From CV Require Import Model.Base Model.Glue Proofs.GlueP Proofs.ReviewP Check.C19Check.
From Coq Require Import List NArith Bool String. Import ListNotations. Open Scope N_scope.

Definition idp (_ : N) (s : str) : option str := Some s.
Definition n (s : string) (v : string) : cap := (Some (lit s), lit v).
Definition u (v : string) : cap := (None, lit v).
Definition m0 : cap := u "whole".

(* G1: two adjacent families: segmented correctly, hypotheses of the theorem hold *)
Definition fam0 := [n "__0_0" ""; n "__0_1" "x"]. Definition fam1 := [n "__1_0" "y"; n "__1_1" ""].
Example G1 : groups_sep [fam0; fam1] [] /\
  run_glue idp (SArgs [ATyped 1; ATyped 2]) (m0 :: fam0 ++ fam1) = ORan [lit "x"; lit "y"].
Proof. split; [cbn [groups_sep]; repeat split; try (repeat constructor); vm_compute; reflexivity|vm_compute; reflexivity]. Qed.

(* G2: plain group followed by a family, and MORE groups than typed args (the extras go to `rest`) *)
Example G2 : groups_sep [[u "3"]; fam0] [u "extra"; u "extra2"] /\
  List.length [[u "3"]; fam0] = count_typed [ATyped 1; AStep; ATyped 2] /\
  run_glue idp (SArgs [ATyped 1; AStep; ATyped 2]) (m0 :: [u "3"] ++ fam0 ++ [u "extra"; u "extra2"]) = ORan [lit "3"; lit "<step>"; lit "x"].
Proof. split; [cbn [groups_sep]; repeat split; try (repeat constructor); vm_compute; reflexivity|split; vm_compute; reflexivity]. Qed.

(* G3: prefix confusion "__1" / "__10": family_prefix drops the trailing '_' so starts_with "__1" "__10_0" = true.
   The intended segmentation [[__1_0];[__10_0]] is NOT a groups_sep; the only one is the single group of both,
   and the model hands a fn(String,String) "not found" for its 2nd argument. groups_sep = the model's rule, so the
   theorems cannot tell this from the intended families. *)
Definition c1 := n "__1_0" "a". Definition c10 := n "__10_0" "b".
Example G3 : family_of c1 c10 = true /\ ~ groups_sep [[c1]; [c10]] [] /\ groups_sep [[c1; c10]] [] /\
  run_glue idp (SArgs [ATyped 2; ATyped 2]) [m0; c1; c10] = ONotFound 1 /\
  run_glue idp (SArgs [ATyped 2]) [m0; c1; c10] = ORan [lit "a"].
Proof.
  split; [vm_compute; reflexivity|]. split; [intros (_ & H & _); vm_compute in H; discriminate H|].
  split; [cbn [groups_sep]; repeat split; repeat constructor; vm_compute; reflexivity|]. split; vm_compute; reflexivity.
Qed.
(* a name "___x" (three underscores) has prefix "__": it swallows EVERY following "__"-named group *)
Example G3b : family_of (n "___x" "a") (n "__7_0" "b") = true.
Proof. vm_compute. reflexivity. Qed.

(* E1: `returns_err` is the oracle field at_err_unless read the way `expected` reads it: a zero-argument function
   declared "returns Err" is expected to have RUN normally; the observation "step passed" is accepted and "step failed with
   Err" is rejected *)
Definition zc : gcase := mk_gcase [mk_attr 7 70 (SNone false) (Some (lit "never"))] [] true [].
Definition zp (o : obs) := mk_probe [7] [m0] (Some 7) o.
Example E1 : returns_err (mk_attr 7 70 (SNone false) (Some (lit "never"))) [] = false /\
  fst (expected zc (zp ObNone)) = ObRan 70 [] /\
  obs_eqb (fst (expected zc (zp (ObRan 70 []))) ) (ObRan 70 []) = true /\
  obs_eqb (fst (expected zc (zp (ObErr 70 []))) ) (ObErr 70 []) = false.
Proof. vm_compute. repeat split. Qed.

(* E2: with arguments the checker is exact: Err expected -> "ran normally" rejected, also Err with other args rejected *)
Example E2 :
  let c := ex_case (lit "4") in
  (obs_eqb (fst (expected c (ex_probe ObNone))) (ObRan 70 [lit "3"; lit "dog"]),
   obs_eqb (fst (expected c (ex_probe ObNone))) (ObErr 70 [lit "3"; lit "cat"]),
   obs_eqb (fst (expected c (ex_probe ObNone))) (ObErr 71 [lit "3"; lit "dog"]),
   obs_eqb (fst (expected c (ex_probe ObNone))) (ObErr 70 [lit "3"; lit "dog"])) = (false, false, false, true).
Proof. vm_compute. reflexivity. Qed.

(* E3: Err is keyed on the FIRST displayed argument only; with a #[step] first argument the first displayed arg is "<step>" *)
Example E3 :
  let att := mk_attr 7 70 (SArgs [AStep; ATyped 2]) (Some (lit "dog")) in
  returns_err att [lit "<step>"; lit "dog"] = true.
Proof. vm_compute. reflexivity. Qed.

(* E4: candidate id not in g_attrs -> expected ObNone (silently) *)
Example E4 : expected (mk_gcase [] [] true []) (zp ObNone) = (ObNone, None). Proof. reflexivity. Qed.
