From CV Require Import Model.Base Model.Events Model.Sched Proofs.SchedP Proofs.SchedP3 Proofs.SchedP4 Proofs.ReviewP Proofs.Compose2 Proofs.SchedP9.
From Coq Require Import List NArith Bool. Import ListNotations. Open Scope N_scope.

(* B1: the link missing from Props/C10.v ("WHILE the run is in progress such panics print nothing"): an attempt can end
   (in particular with failed = true) only in a state where the hook is replaced.  Derivable from pc_ok + hook theorem. *)
Theorem attempt_ends_only_while_hook_replaced c ls s tr k b s' o :
  exec c ls = Some (s, tr) -> step c s (LAttEnd k b) = Some (s', o) -> hook_suppressed s = true.
Proof.
  intros H ST.
  destruct (exec_from_all c ls _ _ _ (init_inv c) (init_frame c) (init_end c) H) as ((_ & _ & _ & PC) & _ & _).
  apply (hook_suppressed_iff_loop_active c ls s tr H).
  unfold pc_ok in PC. cbn [step] in ST.
  destruct (pc s); auto; rewrite PC in ST; cbn in ST; discriminate ST.
Qed.

(* B2: the hook field is written by LTop only: every other label leaves it as it is, in ANY state (reachable or not),
   so no attempt label (no user panic) can violate the invariant: it holds by construction of the field *)
Theorem only_LTop_writes_the_hook c s l s' o :
  l <> LTop -> step c s l = Some (s', o) -> hook_suppressed s' = hook_suppressed s.
Proof.
  intros NT H. destruct l; cbn [step] in H.
  - destruct (perrs s); [discriminate|]. inversion H; subst. unfold insert_feature.
    destruct (pf s) as [[[[a b] c0] d] e]. destruct (is_nil _); reflexivity.
  - destruct (perrs s); [discriminate|]. destruct (pf s) as [[[[a b] c0] d] e]. inversion H; subst. reflexivity.
  - destruct (pdone s); [discriminate|]. destruct (pf s) as [[[[a b] c0] d] e]. inversion H; subst. reflexivity.
  - contradiction NT; reflexivity.
  - destruct (set_phase k Dispatched Opened (running s)) as [[e r]|]; [|discriminate]. inversion H; subst. reflexivity.
  - destruct (is_middle x); [|discriminate]. destruct (find_open k (running s)); [|discriminate]. inversion H; subst. reflexivity.
  - destruct (set_phase k Opened Ended (running s)) as [[e r]|]; [|discriminate].
    destruct (next_try e failed (now s)) as [e'|]; [destruct (e_serial e')|]; inversion H; subst; reflexivity.
  - inversion H; subst. reflexivity.
Qed.

(* C1: the faithful "whenever" with the hypothesis on the configuration (not exported by Props/C05.v, but derivable) *)
Theorem visible_failure_retried_no_ff c ls s tr inp :
  cf_fail_fast c = false -> exec c ls = Some (s, tr) -> faithful inp ls -> pc s = Done ->
  forall pre post f r sc cu l,
    tr = pre ++ EvScen f r sc (Some (cu, l)) ScFinished :: post -> 0 < l ->
    failed_evs (out_evs (sc, cu) tr) = true ->
    exists mid post', post = mid ++ EvScen f r sc (Some (cu + 1, l - 1)) ScStarted :: post'.
Proof.
  intros FF H F D. exact (visible_failure_with_retries_left_is_retried c ls s tr inp H F D (no_fail_fast_no_break c ls s tr FF H)).
Qed.
