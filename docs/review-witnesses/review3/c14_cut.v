From CV Require Import Model.Base Model.Events Model.Contract Model.Normalize Model.Reporters Model.ReportersSpec
  Model.ReportersSpec2 Model.ReportersSpec4 Check.Verdict Check.C14Check.
(* a run observed before run-Finished (hung / cut): feature 2 has started in the RAW stream while feature 1 is the head, so
   Normalize still holds `Feature 2 Started`. The terminal report is exactly the model's, yet the new conjunct
   hdr_multiset_ok (raw stream against document) is false. *)
Definition raw : list mev :=
  [ (1, EvStarted); (2, EvFeatS 1); (3, EvScen 1 None 11 None ScStarted); (4, EvFeatS 2);
    (5, EvScen 2 None 21 None ScStarted) ].
Definition c : rcase14 :=
  let c0 := mk_rcase14 [] raw 3 true true false [] in
  mk_rcase14 [] raw 3 true true false (model_report c0).
Example cut_run :
  (r_report c, hdr_multiset_ok (map snd raw) (r_report c), doc_order_ok (normalized_stream c) (r_report c), verdict 14 c)
  = ([RLFeature 1; RLScenario 11 None], false, true, [[14;1;1;0];[14;90;0;1]]).
Proof. vm_compute. reflexivity. Qed.
