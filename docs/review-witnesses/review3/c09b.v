From CV Require Import Model.Base Check.Verdict Check.C09bCheck.
Definition R := mk_wrec.  (* sc att which(0 before,1 step,2 after) wid cnt *)

(* ---- legitimate runs: accepted ---- *)
(* two scenarios interleaved, a retry with a fresh World, an attempt whose World::new failed (after hook gets none),
   a step-less attempt with only an after hook *)
Definition legit : list wrec :=
  [ R 1 0 0 1 0; R 2 0 0 2 0; R 1 0 1 1 1; R 2 0 1 2 1; R 1 0 1 1 2; R 1 0 2 1 3; R 2 0 2 2 2;
    R 1 1 0 3 0; R 1 1 1 3 1; R 1 1 2 3 2;
    R 3 0 2 0 0;
    R 4 0 2 0 0 ].
Example legit_ok : worlds_ok (mk_wcase09 legit true true) = true. Proof. vm_compute. reflexivity. Qed.

(* ---- (3) possible false alarm, CONDITIONAL on the harness: the monitor assumes EVERY World-carrying callback adds exactly one
   mutation (`bump` on every record). A callback that panics before it mutates (a panicking before hook or step — the very
   inputs C09 quantifies over: "also after a failed step or a failed before hook") leaves the counter where it was; the after
   hook then truthfully reports one mutation less and the run is rejected. *)
Definition panic_before_mutating : list wrec :=
  [ R 1 0 0 1 0;      (* before hook: World 1, 0 mutations seen, mutates (1) *)
    R 1 0 1 1 1;      (* step: sees 1, PANICS before mutating *)
    R 1 0 2 1 1 ].    (* after hook: same World, truthfully sees 1 *)
Example panic_before_mutating_rejected : worlds_ok (mk_wcase09 panic_before_mutating true true) = false.
Proof. vm_compute. reflexivity. Qed.

(* ---- (2) accepted although wrong ---- *)
(* a step handed NO World at all (instance 0) between two that were: skipped silently, counters still line up *)
Example step_without_world_accepted :
  worlds_ok (mk_wcase09 [R 1 0 0 1 0; R 1 0 1 0 0; R 1 0 1 1 1; R 1 0 2 1 2] true true) = true.
Proof. vm_compute. reflexivity. Qed.
(* the before hook runs AFTER the steps; `which` is read only to find after hooks *)
Example before_hook_last_accepted :
  worlds_ok (mk_wcase09 [R 1 0 1 1 0; R 1 0 1 1 1; R 1 0 0 1 2; R 1 0 2 1 3] true true) = true.
Proof. vm_compute. reflexivity. Qed.
(* an after hook on a World although nothing else of the attempt ever ran on one, sharing excluded only by id: a second attempt
   that is handed instance 0 everywhere shares nothing observable: accepted (disclosed in the header) *)
(* sharing IS rejected, also late in an attempt and across scenarios *)
Example sharing_rejected :
  (worlds_ok (mk_wcase09 [R 1 0 0 1 0; R 2 0 0 1 0] false false),
   worlds_ok (mk_wcase09 [R 1 0 0 1 0; R 2 0 0 2 0; R 2 0 1 1 1] false false),
   worlds_ok (mk_wcase09 [R 1 0 0 1 0; R 1 0 2 1 1; R 1 1 0 1 2] false false)) = (false, false, false).
Proof. vm_compute. reflexivity. Qed.
(* after_once: missing / doubled / early after hook rejected on terminated runs, not judged on a hung run *)
Example after_cases :
  (worlds_ok (mk_wcase09 [R 1 0 0 1 0] true true), worlds_ok (mk_wcase09 [R 1 0 0 1 0] false true),
   worlds_ok (mk_wcase09 [R 1 0 0 1 0; R 1 0 2 1 1; R 1 0 2 1 2] true true),
   worlds_ok (mk_wcase09 [R 1 0 0 1 0; R 1 0 2 1 1; R 1 0 1 1 2] true true)) = (false, true, false, false).
Proof. vm_compute. reflexivity. Qed.
