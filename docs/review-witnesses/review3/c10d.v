From CV Require Import Model.Base Check.Verdict Check.C10dCheck.
(* hung run: restoration not demanded; a probe panic counted into r10_calls would be a false alarm (harness must count before the probe) *)
Example c10d_cases :
  (c10d_ok (mk_rc10case 0 false false), c10d_ok (mk_rc10case 0 false true), c10d_ok (mk_rc10case 0 true true),
   c10d_ok (mk_rc10case 1 true true)) = (true, false, true, false).
Proof. vm_compute. reflexivity. Qed.
