From CV Require Import Model.Base Model.Events Model.TracingAttr Check.Verdict Check.C20bCheck.
(* One physical run: scenario 101 (id 1) logs message 1001 inside its step; the collector forwards it (Log event sent
   into the event channel) BEFORE finish_scenario(1); scenario 102 (id 2) is still running.
   orderA: the Log event is recorded where the collector hands it over   -> before AUnreg 1
   orderB: the Log event is recorded where the WRITER receives it        -> after  AUnreg 1 (execute() ran on to
           finish_scenario in the same poll; the channel is drained by the writer only afterwards) *)
Definition pre : list arec :=
  [ AReg 1 101 None; ANewSpan 10 None; ASpanSid 10 1; ANewSpan 11 (Some 10);
    AReg 2 102 None; ANewSpan 20 None; ASpanSid 20 2;
    AEmit 101 1001; AFmt (Some 11) (Some 1) ].
Definition orderA := pre ++ [ADeliver 101 None (Some 1001); AUnreg 1].
Definition orderB := pre ++ [AUnreg 1; ADeliver 101 None (Some 1001)].
Example same_run_two_observation_orders :
  (attr_ok orderA, not_late (mk_acase20 orderA), verdict 20 (mk_acase20 orderA),
   attr_ok orderB, not_late (mk_acase20 orderB), verdict 20 (mk_acase20 orderB))
  = (true, true, [[20;1;0;0];[20;90;0;1]],
     false, false, [[20;1;1;0];[20;90;0;1]]).
Proof. vm_compute. reflexivity. Qed.
(* note: in orderB clause (c) ALSO fires (101 is no longer among the recipients): the delivery went to the right attempt,
   exactly once, before anything else of the run — and is reported as a property violation (code 1). *)

(* not_late is silent for a message that was never tied to an id (AFmt resolved None / no AEmit): by design, but then
   (b) must catch it; it does *)
Example unresolved_is_b : clause (mk_acase20 [AReg 1 101 None; AEmit 101 7; AFmt None None]) = 2.
Proof. vm_compute. reflexivity. Qed.
