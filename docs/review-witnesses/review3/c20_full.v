From CV Require Import Model.Base Model.Events Model.Tracing Model.TracingAttr Model.TracingFull.
(* The third argument of FEmit ("the span whose result waits for this log") is chosen by the label, not by the model.
   A log emitted in user span 12, BELOW step span 11 of attempt 1 (scenario 101), labelled FEmit 1003 12 12, is accepted by
   the layer after step span 11 has closed and had its result; attempt 1 is then forgotten and the log is delivered to
   scenario 102 only. The composed theorems do not speak about this log (their hypothesis is In (FStepSpan x sid) ls for the
   x of the label), although the header says "anywhere below it". *)
Definition run : list flabel :=
  [ FAttempt 1 101 None 10 None; FAttempt 2 102 None 20 None; FStepSpan 11 1; FSpan 12 (Some 11) None;
    FBase (TClose 11); FBase (TSub 11); FBase TFwd; FBase (TResult 11);
    FEmit 1003 12 12;
    FFinish 1; FBase TFwd ].
Example misattributed_in_the_layer :
  match fexec finit run with Some (_, out) => Some out | None => None end = Some [FRes 11; FDeliver 102 None 1003].
Proof. vm_compute. reflexivity. Qed.
