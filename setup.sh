#!/bin/sh
# Builds the framework from files on disk only (offline): full .vo build of the
# Coq development, then the Rust correspondence harness against /repo.
set -e
cd "$(dirname "$0")"
export CARGO_NET_OFFLINE=true
mkdir -p build evidence
( cd coq && coq_makefile -f _CoqProject -o Makefile >/dev/null && timeout 3000 make -j16 >build.log 2>&1 || { tail -40 build.log; exit 1; } )
( cd harness && CARGO_TARGET_DIR=/verif/build/target RUSTFLAGS="--cfg cucumber_rs_cucumber_verif" timeout 3000 cargo build --offline --quiet 2>&1 | tail -5 )
( cd harness-tracing && CARGO_TARGET_DIR=/verif/build/target-harness-tracing RUSTFLAGS="--cfg cucumber_rs_cucumber_verif" timeout 3000 cargo build --offline --quiet 2>&1 | tail -5 )
echo "setup done"
